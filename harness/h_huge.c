/* Huge counts and sizes (extra configuration "huge" of C04 and C06; -DVF_HUGE=4|6).
 *
 * The main harnesses drive small objects; here the SAME operations are given counts, capacities and element sizes near
 * the top of the index type (2^31 .. SIZE_MAX, SIZE_MAX/siz +- 2, ...), which the properties quantify over ("all indices
 * and counts of the index type", "any element size", "all lengths").  No such request can be satisfied, so the only
 * correct outcomes are: report failure and leave the object exactly as it was - or, if success is reported, really own
 * the storage the bookkeeping claims.  What goes wrong in practice is arithmetic: siz * num or num + header wrapping
 * around to a small request that the allocator happily grants, a growth loop whose 1.5x step overflows and never
 * terminates, a round-up that wraps to 0 and turns "grow" into "release".
 *
 * Monitor = invariant at a hook.  The library's allocator extension point (a_alloc) is replaced by a ledger allocator
 * that refuses every request above 1 GiB (a legitimate allocator behaviour) and records the granted size of every
 * live block.  After every operation:
 *   - storage: (capacity * element size [+ header]) computed in 128-bit arithmetic <= bytes granted for that block;
 *   - count <= capacity; pointers handed out lie inside the granted block;
 *   - a call that reports success for a capacity request M really has capacity >= M;
 *   - a call that reports failure left count, capacity, element size, block pointer and all content bytes unchanged;
 *   - the call returns: a CPU-time watchdog (ITIMER_VIRTUAL, 20 s; a legitimate growth loop needs < 200 iterations)
 *     turns a non-terminating call into the violation "does-not-return" (CPU time, so machine load cannot trigger it).
 * Nothing is ever written through a pointer whose block does not cover it, so the monitor itself cannot crash on a
 * library that miscounts.
 *
 * Not judged (outside the property texts): the queue's element SIZE near SIZE_MAX (C05 quantifies over operation sequences
 * and positions, not element sizes) - a_que_new(SIZE_MAX - 8) wraps sizeof(a_list) + siz and overruns its first node; and
 * a_buf_setm / a_vec_store with counts that only make sense if the caller owns a source block of that many elements.
 */
#ifndef VF_HUGE
#error "compile with -DVF_HUGE=4|6"
#endif
#if VF_HUGE == 4
#define VF_PROP "C04"
#else
#define VF_PROP "C06"
#endif
#define VF_HAVE_INIT
#include "vf_common.h"
#include "a/vec.h"
#include "a/buf.h"
#include "a/str.h"
#include <signal.h>
#include <sys/time.h>

typedef unsigned __int128 u128;

/* ------------------------------------------------------------------ ledger allocator */
#define LEDGER 64
#define GRANT_LIMIT ((size_t)1 << 30)
static struct { void *p; size_t n; } led[LEDGER];
static uint64_t n_refused, n_granted;
static size_t granted(void const *p)
{
    for (int i = 0; i < LEDGER; ++i) { if (led[i].p == p && p) { return led[i].n; } }
    return 0;
}
static int is_live(void const *p)
{
    for (int i = 0; i < LEDGER; ++i) { if (led[i].p == p && p) { return 1; } }
    return 0;
}
static void *huge_alloc(void *addr, a_size size)
{
    int slot = -1;
    if (addr)
    {
        for (int i = 0; i < LEDGER; ++i) { if (led[i].p == addr) { slot = i; break; } }
        if (slot < 0)
        {
            vf_viol("allocator/released-or-resized-a-block-it-does-not-own", "a_alloc(%p, %zu): not a live block", addr, (size_t)size);
            return NULL;
        }
    }
    if (size == 0)
    {
        if (slot >= 0) { free(led[slot].p); led[slot].p = NULL; led[slot].n = 0; }
        return NULL;
    }
    if (size > GRANT_LIMIT) { ++n_refused; return NULL; }
    {
        void *p = realloc(addr, size);
        if (!p) { ++n_refused; return NULL; }
        if (slot < 0)
        {
            for (int i = 0; i < LEDGER; ++i) { if (!led[i].p) { slot = i; break; } }
            if (slot < 0) { fprintf(stderr, "h_huge: ledger full\n"); exit(2); }
        }
        led[slot].p = p;
        led[slot].n = size;
        ++n_granted;
        return p;
    }
}
static void ledger_reset(void)
{
    for (int i = 0; i < LEDGER; ++i) { if (led[i].p) { free(led[i].p); led[i].p = NULL; led[i].n = 0; } }
}

/* ------------------------------------------------------------------ watchdog (CPU time of this process) */
#include <setjmp.h>
static sigjmp_buf wd_env;
static int wd_hung;
static void on_alarm(int sig)
{
    (void)sig;
    siglongjmp(wd_env, 1); /* out of the library's (pure arithmetic) loop; the object is abandoned afterwards */
}
static void wd_arm(void)
{
    struct itimerval it = {{0, 0}, {20, 0}};
    setitimer(ITIMER_VIRTUAL, &it, NULL);
}
static void wd_stop(void)
{
    struct itimerval it = {{0, 0}, {0, 0}};
    setitimer(ITIMER_VIRTUAL, &it, NULL);
}
/* run one library call under the watchdog; on expiry report <key> and set wd_hung */
#define WD_CALL(key, what, stmt)                                                                                                              \
    do {                                                                                                                                      \
        wd_hung = 0;                                                                                                                          \
        if (sigsetjmp(wd_env, 1) == 0) { wd_arm(); stmt; wd_stop(); }                                                                         \
        else                                                                                                                                  \
        {                                                                                                                                     \
            wd_hung = 1;                                                                                                                      \
            vf_viol(key, "%s: no return after 20 s of CPU time (a legitimate 1.5x growth loop needs fewer than 200 iterations)", what);       \
        }                                                                                                                                     \
    } while (0)

/* ------------------------------------------------------------------ value tables */
static size_t HV[96];
static unsigned nHV;
static void add_hv(size_t v)
{
    if (v < ((size_t)1 << 31)) { return; } /* only counts no allocator here can satisfy (SIZE_MAX/s + d wraps to small values for s = 1) */
    for (unsigned i = 0; i < nHV; ++i) { if (HV[i] == v) { return; } }
    if (nHV < 96) { HV[nHV++] = v; }
}
static void vf_init(void)
{
    static size_t const sizes[] = {1, 2, 3, 4, 8, 12, 16, 24, 40};
    size_t const M = SIZE_MAX;
    add_hv((size_t)1 << 31); add_hv(((size_t)1 << 32) - 1); add_hv((size_t)1 << 32); add_hv(((size_t)1 << 32) + 5);
    add_hv((size_t)1 << 48); add_hv(((size_t)1 << 60) + 1); add_hv((size_t)1 << 61); add_hv(((size_t)1 << 61) + 3); add_hv((size_t)1 << 62);
    add_hv(((size_t)1 << 63) - 1); add_hv((size_t)1 << 63); add_hv(((size_t)1 << 63) + 1);
    add_hv(M / 3 * 2 - 1); add_hv(M / 3 * 2 + 2); add_hv(M / 2 + M / 4);
    for (unsigned i = 0; i <= 40; ++i) { add_hv(M - i); }
    for (unsigned k = 0; k < sizeof sizes / sizeof sizes[0]; ++k)
    {
        size_t const s = sizes[k];
        for (int d = -2; d <= 3; ++d) { add_hv(M / s + (size_t)d); }
        for (int d = -2; d <= 3; ++d) { add_hv((M - 24) / s + (size_t)d); add_hv((M - 32) / s + (size_t)d); add_hv((M - 40) / s + (size_t)d); }
    }
    a_alloc = huge_alloc;
    signal(SIGVTALRM, on_alarm);
}
static size_t const ESZ[] = {0, 1, 2, 3, 4, 8, 12, 16, 24, 40};
#define N_ESZ (sizeof ESZ / sizeof ESZ[0])

#define FAILK(key, ...) do { vf_viol(key, __VA_ARGS__); } while (0)

/* ================================================================== C04: vector and buffer */
#if VF_HUGE == 4
typedef struct { void *ptr; size_t siz, num, mem; unsigned char bytes[5 * 40]; } vsnap;
static void vec_snap(a_vec const *v, vsnap *s)
{
    s->ptr = a_vec_ptr(v); s->siz = a_vec_siz(v); s->num = a_vec_num(v); s->mem = a_vec_mem(v);
    if (s->num && s->num * s->siz <= sizeof s->bytes) { memcpy(s->bytes, s->ptr, s->num * s->siz); }
}
static int vec_invariants(a_vec const *v, char const *op, char const *what)
{
    char key[96];
    size_t const g = granted(a_vec_ptr(v));
    ++vf.evals;
    if (a_vec_num(v) > a_vec_mem(v))
    {
        snprintf(key, sizeof key, "%s/count-exceeds-capacity/huge", op);
        FAILK(key, "%s: num %zu > mem %zu", what, a_vec_num(v), a_vec_mem(v));
        return 0;
    }
    if (a_vec_mem(v) && !is_live(a_vec_ptr(v)))
    {
        snprintf(key, sizeof key, "%s/capacity-without-storage/huge", op);
        FAILK(key, "%s: mem %zu but the block pointer %p is not a live allocation", what, a_vec_mem(v), a_vec_ptr(v));
        return 0;
    }
    if ((u128)a_vec_mem(v) * a_vec_siz(v) > g)
    {
        snprintf(key, sizeof key, "%s/capacity-exceeds-granted-storage/huge", op);
        FAILK(key, "%s: mem %zu x element size %zu = %.6Lg bytes, but the allocator granted %zu bytes for the block", what, a_vec_mem(v), a_vec_siz(v),
              (long double)((u128)a_vec_mem(v) * a_vec_siz(v)), g);
        return 0;
    }
    return 1;
}
static int vec_unchanged(a_vec const *v, vsnap const *s, char const *op, char const *what)
{
    char key[96];
    if (a_vec_ptr(v) != s->ptr || a_vec_siz(v) != s->siz || a_vec_num(v) != s->num || a_vec_mem(v) != s->mem ||
        (s->num && memcmp(a_vec_ptr(v), s->bytes, s->num * s->siz) != 0))
    {
        snprintf(key, sizeof key, "%s/state-changed-by-failed-call/huge", op);
        FAILK(key, "%s reported failure but left ptr %p siz %zu num %zu mem %zu (before: ptr %p siz %zu num %zu mem %zu) or changed content", what, a_vec_ptr(v), a_vec_siz(v),
              a_vec_num(v), a_vec_mem(v), s->ptr, s->siz, s->num, s->mem);
        return 0;
    }
    return 1;
}
static void case_vec(size_t siz, size_t M, int filled, int op)
{
    a_vec *v = a_vec_new(siz);
    vsnap s;
    char what[160];
    int rc;
    if (!v) { return; }
    if (filled)
    {
        for (int i = 0; i < 5; ++i)
        {
            unsigned char *p = (unsigned char *)a_vec_push_back(v);
            if (!p) { goto done; }
            memset(p, 0x30 + i, a_vec_siz(v));
        }
    }
    vec_snap(v, &s);
    if (op == 0)
    {
        snprintf(what, sizeof what, "a_vec_setm(vec of %zu-byte elements, num %zu mem %zu; mem=%zu)", a_vec_siz(v), s.num, s.mem, M);
        vf_log("%s", what);
        WD_CALL("vec_setm/does-not-return/huge", what, rc = a_vec_setm(v, M));
        if (wd_hung) { return; }
        VF_COUNT("huge-vec-setm");
        if (!vec_invariants(v, "vec_setm", what)) { goto done; }
        if (rc == 0 && a_vec_mem(v) < M) { FAILK("vec_setm/success-without-capacity/huge", "%s returned 0 but mem is %zu", what, a_vec_mem(v)); goto done; }
        if (rc != 0 && !vec_unchanged(v, &s, "vec_setm", what)) { goto done; }
    }
    else if (op == 1)
    {
        snprintf(what, sizeof what, "a_vec_setn(vec of %zu-byte elements, num %zu mem %zu; num=%zu)", a_vec_siz(v), s.num, s.mem, M);
        vf_log("%s", what);
        WD_CALL("vec_setn/does-not-return/huge", what, rc = a_vec_setn(v, M, NULL));
        if (wd_hung) { return; }
        VF_COUNT("huge-vec-setn");
        if (!vec_invariants(v, "vec_setn", what)) { goto done; }
        if (rc == 0 && a_vec_num(v) != M) { FAILK("vec_setn/success-without-count/huge", "%s returned 0 but num is %zu", what, a_vec_num(v)); goto done; }
        if (rc != 0 && !vec_unchanged(v, &s, "vec_setn", what)) { goto done; }
    }
    else
    {
        /* bulk store of M elements: the source block cannot exist, so the only legitimate outcomes are refusal before
           any access (the capacity request comes first) - the source pointer is a guard page-free NULL-distinct dummy */
        static unsigned char dummy[64];
        snprintf(what, sizeof what, "a_vec_store(vec of %zu-byte elements, num %zu mem %zu; idx=%zu, n=%zu)", a_vec_siz(v), s.num, s.mem, s.num, M);
        vf_log("%s", what);
        WD_CALL("vec_store/does-not-return/huge", what, rc = a_vec_store(v, s.num, dummy, M, NULL));
        if (wd_hung) { return; }
        VF_COUNT("huge-vec-store");
        if (!vec_invariants(v, "vec_store", what)) { goto done; }
        if (rc == 0) { FAILK("vec_store/success-on-impossible-count/huge", "%s returned 0", what); goto done; }
        if (!vec_unchanged(v, &s, "vec_store", what)) { goto done; }
    }
    /* the object must still work */
    {
        unsigned char *p = (unsigned char *)a_vec_push_back(v);
        if (p)
        {
            size_t const g = granted(a_vec_ptr(v));
            if (p < (unsigned char *)a_vec_ptr(v) || (u128)(size_t)(p - (unsigned char *)a_vec_ptr(v)) + a_vec_siz(v) > g)
            {
                FAILK("vec_push_back/pointer-outside-granted-storage/huge", "after %s: push_back returned %p, block %p has %zu bytes", what, (void *)p, a_vec_ptr(v), g);
                goto done;
            }
            memset(p, 0x77, a_vec_siz(v));
        }
        vec_invariants(v, "vec_push_back", what);
    }
    vf_distinct(vf_hash64(vf_hash64(vf_hash64(0x4000 + (uint64_t)op, siz), (uint64_t)filled), M));
done:
    a_vec_die(v, NULL);
}

static int buf_invariants(a_buf const *b, char const *op, char const *what)
{
    char key[96];
    size_t const g = granted(b);
    ++vf.evals;
    if (a_buf_num(b) > a_buf_mem(b))
    {
        snprintf(key, sizeof key, "%s/count-exceeds-capacity/huge", op);
        FAILK(key, "%s: num %zu > mem %zu", what, a_buf_num(b), a_buf_mem(b));
        return 0;
    }
    if ((u128)a_buf_mem(b) * a_buf_siz(b) + sizeof(a_buf) > g)
    {
        snprintf(key, sizeof key, "%s/capacity-exceeds-granted-storage/huge", op);
        FAILK(key, "%s: header + mem %zu x element size %zu = %.6Lg bytes, but the allocator granted %zu bytes for the block", what, a_buf_mem(b), a_buf_siz(b),
              (long double)((u128)a_buf_mem(b) * a_buf_siz(b) + sizeof(a_buf)), g);
        return 0;
    }
    return 1;
}
static void case_buf(size_t siz, size_t M, int filled, int op)
{
    char what[160];
    if (op == 0)
    {
        a_buf *b;
        snprintf(what, sizeof what, "a_buf_new(siz=%zu, num=%zu)", siz, M);
        vf_log("%s", what);
        WD_CALL("buf_new/does-not-return/huge", what, b = a_buf_new(siz, M));
        if (wd_hung) { return; }
        VF_COUNT("huge-buf-new");
        ++vf.evals;
        if (b)
        {
            if (buf_invariants(b, "buf_new", what))
            {
                /* capacity claimed and covered (cannot happen below the 1 GiB grant limit with these counts) */
                VF_COUNT("huge-buf-new-granted");
            }
            a_buf_die(b, NULL);
        }
    }
    else
    {
        a_buf *b = a_buf_new(siz, 8), *nb;
        size_t num0, mem0, siz0;
        unsigned char keep[5 * 40];
        if (!b) { return; }
        if (filled)
        {
            for (int i = 0; i < 5; ++i)
            {
                unsigned char *p = (unsigned char *)a_buf_push_back(b);
                if (p) { memset(p, 0x30 + i, a_buf_siz(b)); }
            }
        }
        num0 = a_buf_num(b); mem0 = a_buf_mem(b); siz0 = a_buf_siz(b);
        if (num0) { memcpy(keep, a_buf_ptr(b), num0 * siz0); }
        snprintf(what, sizeof what, "a_buf_setm(buf of %zu-byte elements, num %zu mem %zu; mem=%zu)", siz0, num0, mem0, M);
        vf_log("%s", what);
        WD_CALL("buf_setm/does-not-return/huge", what, nb = a_buf_setm(b, M));
        if (wd_hung) { return; }
        VF_COUNT("huge-buf-setm");
        if (nb)
        {
            b = nb;
            if (!buf_invariants(b, "buf_setm", what)) { goto bdone; }
            if (a_buf_mem(b) < M) { FAILK("buf_setm/success-without-capacity/huge", "%s returned a buffer with mem %zu", what, a_buf_mem(b)); goto bdone; }
        }
        else
        {
            ++vf.evals;
            if (!is_live(b) || a_buf_num(b) != num0 || a_buf_mem(b) != mem0 || a_buf_siz(b) != siz0 || (num0 && memcmp(a_buf_ptr(b), keep, num0 * siz0) != 0))
            {
                FAILK("buf_setm/state-changed-by-failed-call/huge", "%s returned null but the buffer changed (num %zu mem %zu siz %zu)", what, a_buf_num(b), a_buf_mem(b), a_buf_siz(b));
                goto bdone;
            }
        }
        {
            unsigned char *p = (unsigned char *)a_buf_push_back(b);
            if (p)
            {
                size_t const g = granted(b);
                if (p < (unsigned char *)b || (u128)(size_t)(p - (unsigned char *)b) + a_buf_siz(b) > g)
                {
                    FAILK("buf_push_back/pointer-outside-granted-storage/huge", "after %s: push_back returned %p, block %p has %zu bytes", what, (void *)p, (void *)b, g);
                    goto bdone;
                }
                memset(p, 0x77, a_buf_siz(b));
            }
            buf_invariants(b, "buf_push_back", what);
        }
    bdone:
        a_buf_die(b, NULL);
    }
    vf_distinct(vf_hash64(vf_hash64(vf_hash64(0x4100 + (uint64_t)op, siz), (uint64_t)filled), M));
}
static uint64_t vf_ncases(int tier) { (void)tier; return (uint64_t)nHV * N_ESZ; }
static void vf_case(uint64_t c, vf_rng *r)
{
    size_t const M = HV[c % nHV], siz = ESZ[c / nHV % N_ESZ];
    (void)r;
    for (int filled = 0; filled < 2; ++filled)
    {
        for (int op = 0; op < 2; ++op) { case_vec(siz, M, filled, op); ledger_reset(); }
        for (int op = 0; op < 2; ++op) { case_buf(siz, M, filled, op); ledger_reset(); }
    }
    VF_ADD("huge-allocator-refusals", n_refused);
    VF_ADD("huge-allocator-grants", n_granted);
    n_refused = n_granted = 0;
}
#endif

/* ================================================================== C06: string */
#if VF_HUGE == 6
static int str_invariants(a_str const *s, char const *op, char const *what)
{
    char key[96];
    size_t const g = granted(a_str_ptr(s));
    ++vf.evals;
    if (a_str_len(s) > a_str_mem(s))
    {
        snprintf(key, sizeof key, "%s/length-exceeds-capacity/huge", op);
        FAILK(key, "%s: length %zu > capacity %zu", what, a_str_len(s), a_str_mem(s));
        return 0;
    }
    if (a_str_mem(s) > g)
    {
        snprintf(key, sizeof key, "%s/capacity-exceeds-granted-storage/huge", op);
        FAILK(key, "%s: capacity %zu but the allocator granted %zu bytes for the block %p", what, a_str_mem(s), g, (void *)a_str_ptr(s));
        return 0;
    }
    return 1;
}
static uint64_t vf_ncases(int tier) { (void)tier; return nHV; }
static void vf_case(uint64_t c, vf_rng *r)
{
    size_t const M = HV[c % nHV];
    (void)r;
    for (volatile int filled = 0; filled < 2; ++filled)
    {
        for (volatile int op = 0; op < (c == 0 && !filled ? 4 : 3); ++op) /* the INT_MAX-wide formatted append costs seconds in the C formatter: once */
        {
            a_str s;
            char what[160], keep[8];
            char *p0;
            size_t n0, m0;
            int rc;
            a_str_ctor(&s);
            if (filled && a_str_cats(&s, "hello") != 0) { a_str_dtor(&s); ledger_reset(); continue; }
            p0 = a_str_ptr(&s); n0 = a_str_len(&s); m0 = a_str_mem(&s);
            if (n0) { memcpy(keep, p0, n0); }
            switch (op)
            {
            case 0:
                snprintf(what, sizeof what, "a_str_setm(string of length %zu capacity %zu; mem=%zu)", n0, m0, M);
                vf_log("%s", what);
                WD_CALL("str_setm/does-not-return/huge", what, rc = a_str_setm(&s, M));
                if (wd_hung) { ledger_reset(); continue; }
                VF_COUNT("huge-str-setm");
                break;
            case 1:
                snprintf(what, sizeof what, "a_str_setm_(string of length %zu capacity %zu; mem=%zu)", n0, m0, M);
                vf_log("%s", what);
                WD_CALL("str_setm_/does-not-return/huge", what, rc = a_str_setm_(&s, M));
                if (wd_hung) { ledger_reset(); continue; }
                VF_COUNT("huge-str-setm_");
                break;
            case 2:
                snprintf(what, sizeof what, "a_str_setn(string of length %zu capacity %zu; num=%zu)", n0, m0, M);
                vf_log("%s", what);
                rc = a_str_setn(&s, M);
                VF_COUNT("huge-str-setn");
                break;
            default:
                /* "%*s" with a width the formatter cannot produce (> INT_MAX is not expressible; INT_MAX itself is): must fail cleanly */
                snprintf(what, sizeof what, "a_str_catf(string of length %zu capacity %zu; \"%%*s\", %d, \"x\")", n0, m0, INT_MAX - (int)(c % 7));
                vf_log("%s", what);
                WD_CALL("str_catf/does-not-return/huge", what, rc = a_str_catf(&s, "%*s", INT_MAX - (int)(c % 7), "x"));
                if (wd_hung) { ledger_reset(); continue; }
                rc = rc < 0 ? 1 : 0;
                VF_COUNT("huge-str-catf-width");
                break;
            }
            if (str_invariants(&s, op == 0 ? "str_setm" : op == 1 ? "str_setm_" : op == 2 ? "str_setn" : "str_catf", what))
            {
                if (rc == 0 && op < 2 && a_str_mem(&s) < M)
                {
                    FAILK(op == 0 ? "str_setm/success-without-capacity/huge" : "str_setm_/success-without-capacity/huge", "%s returned 0 but capacity is %zu (block %p)", what, a_str_mem(&s),
                          (void *)a_str_ptr(&s));
                }
                else if (rc != 0 && (a_str_ptr(&s) != p0 || a_str_len(&s) != n0 || a_str_mem(&s) != m0 || (n0 && memcmp(a_str_ptr(&s), keep, n0) != 0)))
                {
                    FAILK(op == 0 ? "str_setm/state-changed-by-failed-call/huge" : op == 1 ? "str_setm_/state-changed-by-failed-call/huge" : op == 2 ? "str_setn/state-changed-by-failed-call/huge" : "str_catf/state-changed-by-failed-call/huge",
                          "%s reported failure but left ptr %p len %zu mem %zu (before %p %zu %zu) or changed content", what, (void *)a_str_ptr(&s), a_str_len(&s), a_str_mem(&s), (void *)p0, n0, m0);
                }
                else if (n0 && a_str_len(&s) >= n0 && is_live(a_str_ptr(&s)) && op != 2 && memcmp(a_str_ptr(&s), keep, n0) != 0)
                {
                    FAILK("str/content-lost/huge", "%s: the first %zu bytes are no longer \"hello\"", what, n0);
                }
                else if (op != 2)
                {
                    /* the object must still work */
                    if (a_str_catc(&s, 'z') == 'z') { str_invariants(&s, "str_catc", what); }
                }
            }
            vf_distinct(vf_hash64(vf_hash64(0x6000 + (uint64_t)op, (uint64_t)filled), op == 3 ? c % 7 : M));
            if (op == 2 && rc == 0) { a_str_setn_(&s, n0 <= a_str_mem(&s) ? n0 : 0); }
            a_str_dtor(&s);
            ledger_reset();
        }
    }
    VF_ADD("huge-allocator-refusals", n_refused);
    VF_ADD("huge-allocator-grants", n_granted);
    n_refused = n_granted = 0;
}
#endif
