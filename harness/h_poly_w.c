/* C15, other real widths (A_SIZE_REAL = 4 float, 16 long double): compact type-generic companion of h_poly.c (which assumes
 * a_real == double).  Everything is computed in the working type T (eps = A_REAL_EPSILON, u = eps/2) and judged against binary128.
 *
 *   exact regime  integer boundary data (|p|<=4, |v|,|a|<=3, jerks in 3*[-2,2]), ts in {1, 2, 1/2}: every sub-expression of the
 *                 documented numerators is a multiple of 2^-7 below 2^19, i.e. exact in >= 24 bits in ANY evaluation order, and
 *                 fl(1/6)*(3m 2^e) rounds to m 2^(e-1) for a correctly rounded 1/6 (relative error 2^-25 / 2^-54 / 2^-65 < half an ulp)
 *                 => stored coefficients == documented closed forms, pos/vel/acc/jer(0) == initial data, and whenever the documented
 *                 Horner recurrence at ts is exact in T (decided in binary128) the final data, all with ==.
 *   real regime   every value uses the full mantissa of T (a double/float temporary in the library then shows), magnitudes 1e-2..1e2,
 *                 ts in 1e-2..1e2 (or a power of two): stored coefficient vs documented closed form within 16 eps * sum|terms|
 *                 (a-priori: <= 21 roundings on the worst path = 10.5 eps), c[3] = j0/6 within 2 eps; pos/vel/acc(0) bitwise, jer(0)
 *                 within 2 eps |j0| (3 roundings; <= 4 ulp); end conditions within C eps S, C = 2^8/2^13/2^19 as in h_poly.c (the bound is in
 *                 units of eps, so width independent; worst ratios are reported as w-end3/5/7).
 *   accessors     c0 == stored (bitwise), c1/c2/c3[i] within 2 eps of (i+k)!/i! c[i+k], == when that product is representable.
 *   outputs       pos/vel/acc/jer(x), x in {0, ts, two more}, vs the exact k-th derivative of the stored polynomial in binary128 within
 *                 gamma_{2m+4} sum|c_i||x|^i (m coefficients; Higham's a-priori Horner bound), == when coefficients and recurrence are exact.
 *   a_poly_*      exported a_poly_eval/evar/swap (A_HAVE_INLINE off: the symbols the bindings link) and the pointer-pair forms, lengths
 *                 0..12: == on small-integer data with x in {0,+-1,+-2,+-1/2} (always exact), gamma_{2n} bound on full-mantissa data,
 *                 swap reverses bitwise, eval(swap a) == evar(a), swap_ o swap = id, n = 0 -> 0.
 * Every context, coefficient vector and accessor output is an EXACT-SIZE heap block pre-filled with 0xA5 (ASan red zone directly behind).
 * The closed-form table below is validated in vf_init against the boundary conditions in exact binary128 arithmetic.
 */
#define VF_PROP "C15"
#define VF_HAVE_INIT
#define A_HAVE_INLINE 0
#include "vf_common.h"
#include "a/a.h"
#include "a/poly.h"
#include "a/trajpoly3.h"
#include "a/trajpoly5.h"
#include "a/trajpoly7.h"
#include <quadmath.h>
#include <math.h>
typedef __float128 q_t;
#define EPS ((q_t)A_REAL_EPSILON)
#if A_REAL_TYPE + 0 == A_REAL_SINGLE
#define W "f32"
#elif A_REAL_TYPE + 0 == A_REAL_EXTEND
#define W "f80"
#else
#define W "f64"
#endif
#define WB (sizeof(a_real) > 10 ? 10 : sizeof(a_real)) /* value bytes of one element (x87 long double has 6 padding bytes) */
#define LD(x) ((long double)(x))

static q_t gam(int k) { return k * (EPS / 2) / (1 - k * (EPS / 2)); }
static int repr(q_t v) { return (q_t)(a_real)v == v; } /* representable in the working type */
static void *blk(size_t bytes)
{
    void *p = malloc(bytes ? bytes : 1); /* exact size */
    memset(p, 0xA5, bytes ? bytes : 1);
    return p;
}

/* ------------------------------------------------------------------ the three orders behind one interface */
typedef struct
{
    int N, n, nb, nout; /* order, coefficients, boundary conditions per end, output functions */
    size_t size;
    void (*gen)(void *, a_real, a_real const *, a_real const *);
    void (*cof[4])(void const *, a_real *);
    a_real (*out[4])(void const *, a_real);
    /* a/trajpolyN.h: c[nb+r] = sum_m K[r][m] d_m / (D[r] t^(nb+r)), d = (p1-p0, v0 t, v1 t, a0 t^2, a1 t^2, j0 t^3, j1 t^3); c[k<nb] = b0[k]/k! */
    int K[4][7], D[4];
    double C;
} order_t;
#define ACC(N, k) static void c##k##_##N(void const *t, a_real *c) { a_trajpoly##N##_c##k((a_trajpoly##N const *)t, c); }
#define OUT(N, f) static a_real f##_##N(void const *t, a_real x) { return a_trajpoly##N##_##f((a_trajpoly##N const *)t, x); }
#define ALL(N) ACC(N, 0) ACC(N, 1) ACC(N, 2) OUT(N, pos) OUT(N, vel) OUT(N, acc)
ALL(3) ALL(5) ALL(7) ACC(7, 3) OUT(7, jer)
static void gen_3(void *t, a_real ts, a_real const *b0, a_real const *b1) { a_trajpoly3_gen((a_trajpoly3 *)t, ts, b0[0], b1[0], b0[1], b1[1]); }
static void gen_5(void *t, a_real ts, a_real const *b0, a_real const *b1) { a_trajpoly5_gen((a_trajpoly5 *)t, ts, b0[0], b1[0], b0[1], b1[1], b0[2], b1[2]); }
static void gen_7(void *t, a_real ts, a_real const *b0, a_real const *b1) { a_trajpoly7_gen((a_trajpoly7 *)t, ts, b0[0], b1[0], b0[1], b1[1], b0[2], b1[2], b0[3], b1[3]); }
static order_t const ORD[3] = {
    {3, 4, 2, 3, sizeof(a_trajpoly3), gen_3, {c0_3, c1_3, c2_3, 0}, {pos_3, vel_3, acc_3, 0}, {{3, -2, -1}, {-2, 1, 1}}, {1, 1}, 0x1p8},
    {5, 6, 3, 3, sizeof(a_trajpoly5), gen_5, {c0_5, c1_5, c2_5, 0}, {pos_5, vel_5, acc_5, 0},
     {{20, -12, -8, -3, 1}, {-30, 16, 14, 3, -2}, {12, -6, -6, -1, 1}}, {2, 2, 2}, 0x1p13},
    {7, 8, 4, 4, sizeof(a_trajpoly7), gen_7, {c0_7, c1_7, c2_7, c3_7}, {pos_7, vel_7, acc_7, jer_7},
     {{210, -120, -90, -30, 15, -4, -1}, {-168, 90, 78, 20, -14, 2, 1}, {420, -216, -204, -45, 39, -4, -3}, {-120, 60, 60, 12, -12, 1, 1}}, {6, 2, 6, 6}, 0x1p19},
};
static char const *const DN[4] = {"pos", "vel", "acc", "jer"};
static int const FACT[4] = {1, 1, 2, 6};
static int ff(int i, int k) /* (i+k)!/i! */
{
    int f = 1;
    for (int j = 1; j <= k; ++j) { f *= i + j; }
    return f;
}
static char const *key(order_t const *o, char const *fn, char const *clause)
{
    static char b[96];
    snprintf(b, sizeof(b), "trajpoly%d_%s/%s/" W, o->N, fn, clause);
    return b;
}

/* documented coefficients and the sum of the magnitudes of their terms, in binary128 */
static void ref_coef(order_t const *o, q_t t, q_t const *b0, q_t const *b1, q_t *c, q_t *mag)
{
    q_t d[7], tp[8];
    tp[0] = 1;
    for (int i = 1; i < 8; ++i) { tp[i] = tp[i - 1] * t; }
    d[0] = b1[0] - b0[0];
    for (int k = 1; k < o->nb; ++k) { d[2 * k - 1] = b0[k] * tp[k]; d[2 * k] = b1[k] * tp[k]; }
    for (int k = 0; k < o->nb; ++k) { c[k] = b0[k] / FACT[k]; mag[k] = fabsq(c[k]); }
    for (int r = 0; r < o->nb; ++r)
    {
        q_t s = 0, m = 0, den = o->D[r] * tp[o->nb + r];
        for (int j = 0; j < 2 * o->nb - 1; ++j) { s += o->K[r][j] * d[j]; m += fabsq(o->K[r][j] * d[j]); }
        c[o->nb + r] = s / den;
        mag[o->nb + r] = m / den;
    }
}
/* k-th derivative of sum c_i x^i at x: value, sum of magnitudes, and whether coefficients and the Horner recurrence are exact in T */
static q_t deriv(q_t const *c, int n, int k, q_t x, q_t *mag, int *exact)
{
    q_t y = 0, m = 0;
    int ex = 1;
    for (int i = n - 1 - k; i >= 0; --i)
    {
        q_t e = ff(i, k) * c[i + k], p = y * x;
        ex &= repr(e) && repr(p) && repr(p + e);
        y = p + e;
        m = m * fabsq(x) + fabsq(e);
    }
    *mag = m;
    *exact = ex;
    return y;
}

static void vf_init(void)
{
    /* the table must satisfy the boundary conditions exactly (integer data, jerks multiples of 3, t = 2 and 1/2: all dyadic) */
    static q_t const b0[4] = {1, -2, 3, -3}, b1[4] = {-2, 1, 2, 6};
    for (int oi = 0; oi < 3; ++oi)
    {
        for (int h = 0; h < 2; ++h)
        {
            q_t c[8], mag[8], t = h ? 0.5 : 2, m;
            int ex;
            ref_coef(&ORD[oi], t, b0, b1, c, mag);
            for (int k = 0; k < ORD[oi].nb; ++k)
            {
                if (deriv(c, ORD[oi].n, k, 0, &m, &ex) != b0[k] || deriv(c, ORD[oi].n, k, t, &m, &ex) != b1[k])
                {
                    fprintf(stderr, "h_poly_w: closed-form table of order %d fails boundary condition %d\n", ORD[oi].N, k);
                    exit(2);
                }
            }
        }
    }
}

static uint64_t vf_ncases(int tier) { return tier ? 1600000 : 40000; }

static a_real fullp(vf_rng *r, double lo, double hi) /* random sign, magnitude log-uniform in [10^lo,10^hi), every mantissa bit of T in use */
{
    a_real v = (a_real)(vf_sign(r) * vf_logu(r, lo, hi));
    return v * (1 + (a_real)vf_range(r, -1000000, 1000000) * A_REAL_EPSILON);
}
static a_real smallint(vf_rng *r, int m, int step) /* step * k, |k| <= m, zero one time in eight */
{
    int k = vf_chance(r, 1, 8) ? 0 : (int)vf_range(r, 1, m) * (vf_chance(r, 1, 2) ? -1 : 1);
    return (a_real)(step * k);
}

static void traj_case(uint64_t c, vf_rng *r)
{
    order_t const *o = &ORD[c % 3];
    int const exact = c / 3 % 4 == 0, n = o->n, nb = o->nb;
    a_real b0[4] = {0, 0, 0, 0}, b1[4] = {0, 0, 0, 0}, ts, xs[4], *cc[4] = {0, 0, 0, 0};
    q_t qb0[4], qb1[4], rc[8], rmag[8], qc[8], S = 0, tk = 1;
    void *ctx = blk(o->size);
    if (exact)
    {
        static a_real const T[3] = {1, 2, A_REAL_C(0.5)};
        ts = T[vf_below(r, 3)];
        for (int k = 0; k < nb; ++k) { int m = k == 0 ? 4 : k == 3 ? 2 : 3, st = k == 3 ? 3 : 1; b0[k] = smallint(r, m, st); b1[k] = smallint(r, m, st); }
        xs[2] = ts / 2;
        xs[3] = 1;
    }
    else
    {
        ts = vf_chance(r, 1, 4) ? (a_real)ldexp(1.0, (int)vf_range(r, -6, 6)) : (a_real)fabsl(LD(fullp(r, -2, 2)));
        for (int k = 0; k < nb; ++k) { b0[k] = fullp(r, -2, 2); b1[k] = fullp(r, -2, 2); }
        xs[2] = ts * (a_real)vf_unit(r);
        xs[3] = ts * (a_real)vf_unit(r);
    }
    xs[0] = 0;
    xs[1] = ts;
    for (int k = 0; k < 4; ++k) { qb0[k] = b0[k]; qb1[k] = b1[k]; }
    vf_log("trajpoly%d[" W "] %s ts=%La p=%La,%La v=%La,%La a=%La,%La j=%La,%La", o->N, exact ? "exact" : "real", LD(ts), LD(b0[0]), LD(b1[0]),
           LD(b0[1]), LD(b1[1]), LD(b0[2]), LD(b1[2]), LD(b0[3]), LD(b1[3]));
    o->gen(ctx, ts, b0, b1);
    for (int k = 0; k < 4 && o->cof[k]; ++k)
    {
        cc[k] = (a_real *)blk((size_t)(n - k) * sizeof(a_real));
        o->cof[k](ctx, cc[k]);
    }
    ++vf.evals;
    /* c0 is the stored vector */
    VF_COUNT("w-c0==stored");
    for (int i = 0; i < n; ++i)
    {
        if (memcmp(&cc[0][i], (a_real const *)ctx + i, WB) != 0) { vf_viol(key(o, "c0", "ne-stored-coefficients"), "cell %d", i); goto done; }
        qc[i] = cc[0][i];
    }
    /* stored coefficients against the documented closed forms */
    ref_coef(o, ts, qb0, qb1, rc, rmag);
    for (int i = 0; i < n; ++i)
    {
        q_t err = fabsq(qc[i] - rc[i]), tol = exact ? 0 : i >= nb ? 16 * EPS * rmag[i] : i == 3 ? 2 * EPS * rmag[i] : 0; /* p0, v0, a0/2 are stored without rounding */
        if (exact) { VF_COUNT("w-exact/coefficient==documented-closed-form"); }
        else { VF_COUNT("w-coefficient-vs-documented-closed-form"); }
        if (tol > 0) { VF_MAX("w-coefficient-error/bound", (double)(err / tol)); }
        if (!(err <= tol))
        {
            vf_viol(key(o, "gen", exact ? "exact-data-coefficient-ne-documented-closed-form" : "coefficient-ne-documented-closed-form"),
                    "c[%d] = %La, documented %La (error %.3g eps*sum|terms|)", i, LD(cc[0][i]), LD(rc[i]), rmag[i] > 0 ? (double)(err / (EPS * rmag[i])) : 0.0);
            goto done;
        }
    }
    /* derivative accessors */
    for (int k = 1; k < 4 && cc[k]; ++k)
    {
        VF_COUNT("w-ck[i]==(i+k)!/i!*c[i+k]");
        for (int i = 0; i < n - k; ++i)
        {
            q_t want = ff(i, k) * qc[i + k], err = fabsq((q_t)cc[k][i] - want);
            if (repr(want) ? err != 0 : !(err <= 2 * EPS * fabsq(want)))
            {
                char fn[4] = {'c', (char)('0' + k), 0, 0};
                vf_viol(key(o, fn, "ne-derivative-coefficient"), "c%d[%d] = %La, want %d*c[%d] = %La", k, i, LD(cc[k][i]), ff(i, k), i + k, LD(want));
                goto done;
            }
        }
    }
    /* output functions */
    for (int k = 0; k < nb; ++k) { S += (fabsq(qb0[k]) + fabsq(qb1[k])) * tk; tk *= ts; }
    for (int xi = 0; xi < 4; ++xi)
    {
        tk = 1;
        for (int k = 0; k < o->nout; ++k, tk *= ts)
        {
            q_t mag, ref, err;
            int ex;
            a_real y;
            vf_log("trajpoly%d_%s(%La)", o->N, DN[k], LD(xs[xi]));
            y = o->out[k](ctx, xs[xi]);
            ref = deriv(qc, n, k, xs[xi], &mag, &ex);
            err = fabsq((q_t)y - ref);
            VF_COUNT("w-output==derivative-of-stored-polynomial");
            if (mag > 0) { VF_MAX("w-output-error/gamma-bound", (double)(err / (gam(2 * (n - k) + 4) * mag))); }
            if (ex) { VF_COUNT("w-output-exact-when-recurrence-is-exact"); }
            if (ex ? err != 0 : !(err <= gam(2 * (n - k) + 4) * mag))
            {
                vf_viol(key(o, DN[k], ex ? "ne-exact-value-of-stored-polynomial" : "ne-derivative-of-stored-polynomial"), "%s(%La) = %La, reference %La", DN[k], LD(xs[xi]), LD(y), LD(ref));
                goto done;
            }
            if (k >= nb) { continue; }
            if (xi == 0)
            {
                /* time zero: position, velocity, acceleration reproduce the data; jerk within 3 roundings, exactly on exact data */
                if (k < 3 || exact) { VF_COUNT("w-t0/output==initial-value-exactly"); }
                else { VF_COUNT("w-t0/jer==j0-2eps"); }
                if (!(fabsq((q_t)y - qb0[k]) <= (k < 3 || exact ? 0 : 2 * EPS * fabsq(qb0[k]))))
                {
                    vf_viol(key(o, DN[k], "initial-value-not-reproduced"), "%s(0) = %La, requested %La", DN[k], LD(y), LD(b0[k]));
                    goto done;
                }
            }
            else if (xi == 1)
            {
                q_t res = fabsq((q_t)y - qb1[k]) * tk;
                VF_COUNT("w-end/output==final-value");
                if (ex && exact) { VF_COUNT("w-exact/end-bitwise"); }
                if (!exact) { vf_max_dyn(o->N == 3 ? "w-end3" : o->N == 5 ? "w-end5" : "w-end7", (double)(res / (EPS * S)), NULL); }
                if (ex && exact ? res != 0 : !(res <= (q_t)o->C * EPS * S))
                {
                    vf_viol(key(o, DN[k], ex && exact ? "exact-data-final-value-not-reproduced" : "final-value-not-reproduced"),
                            "%s(ts) = %La, requested %La (residual %.3g eps*S)", DN[k], LD(y), LD(b1[k]), S > 0 ? (double)(res / (EPS * S)) : 0.0);
                    goto done;
                }
            }
        }
    }
    vf_distinct(vf_hash64(vf_hash64(vf_hash64(5, (uint64_t)o->N), (uint64_t)exact), (uint64_t)(int)floor(log10((double)ts)) + 50));
    if (vf_want_sample() && c % 211 < 3)
    {
        vf_sample("trajpoly%d[" W "] %s data, ts=%Lg: coefficients == documented closed forms (%s), c0..c%d accessors, pos..%s at 0/ts/2 more times judged",
                  o->N, exact ? "integer" : "full-mantissa", LD(ts), exact ? "bitwise" : "16 eps sum|terms|", o->nout - 1, DN[o->nout - 1]);
    }
done:
    for (int k = 0; k < 4; ++k) { free(cc[k]); }
    free(ctx);
}

static void poly_case(uint64_t c, vf_rng *r)
{
    size_t const n = (size_t)(c / 2 % 13);
    int const exact = (int)(c & 1);
    a_real *a = (a_real *)blk(n * sizeof(a_real)), *s = (a_real *)blk(n * sizeof(a_real)), x, ye, yr, t;
    q_t re = 0, rr = 0, mage = 0, magr = 0, xp = 1;
    if (exact)
    {
        static a_real const X[7] = {0, 1, -1, 2, -2, A_REAL_C(0.5), A_REAL_C(-0.5)};
        x = X[vf_below(r, 7)];
        for (size_t i = 0; i < n; ++i) { a[i] = (a_real)vf_range(r, -9, 9); }
    }
    else
    {
        x = fullp(r, -2, 1);
        for (size_t i = 0; i < n; ++i) { a[i] = fullp(r, -2, 2); }
    }
    for (size_t i = 0; i < n; ++i, xp *= x)
    {
        re += (q_t)a[i] * xp;             /* sum a_i x^i */
        rr += (q_t)a[n - 1 - i] * xp;     /* sum a_i x^(n-1-i) */
        mage += fabsq((q_t)a[i] * xp);
        magr += fabsq((q_t)a[n - 1 - i] * xp);
    }
    vf_log("poly[" W "] n=%zu %s x=%La", n, exact ? "small-integer" : "full-mantissa", LD(x));
    ++vf.evals;
    ye = a_poly_eval(a, n, x);
    yr = a_poly_evar(a, n, x);
    if (n == 0)
    {
        VF_COUNT("w-poly/n=0-returns-0");
        if (ye != 0 || yr != 0) { vf_viol("poly_eval/empty-polynomial-not-zero/" W, "eval %La evar %La", LD(ye), LD(yr)); }
        a_poly_swap(a, 0);
        goto done;
    }
    VF_COUNT("w-poly/eval==sum-a[i]x^i");
    if (!(fabsq((q_t)ye - re) <= (exact ? 0 : gam(2 * (int)n) * mage))) { vf_viol(exact ? "poly_eval/ne-exact-value-on-small-integers/" W : "poly_eval/ne-polynomial-value/" W, "n=%zu x=%La: %La vs %La", n, LD(x), LD(ye), LD(re)); goto done; }
    VF_COUNT("w-poly/evar==sum-a[i]x^(n-1-i)");
    if (!(fabsq((q_t)yr - rr) <= (exact ? 0 : gam(2 * (int)n) * magr))) { vf_viol(exact ? "poly_evar/ne-exact-value-on-small-integers/" W : "poly_evar/ne-polynomial-value/" W, "n=%zu x=%La: %La vs %La", n, LD(x), LD(yr), LD(rr)); goto done; }
    VF_COUNT("w-poly/pointer-pair-form==size-form");
    t = a_poly_eval_(a, a + n, x);
    if (memcmp(&t, &ye, WB) != 0) { vf_viol("poly_eval_/ne-size-form/" W, "n=%zu: %La vs %La", n, LD(t), LD(ye)); goto done; }
    t = a_poly_evar_(a, a + n, x);
    if (memcmp(&t, &yr, WB) != 0) { vf_viol("poly_evar_/ne-size-form/" W, "n=%zu: %La vs %La", n, LD(t), LD(yr)); goto done; }
    /* reversal: bitwise, and it exchanges the two evaluation orders */
    memcpy(s, a, n * sizeof(a_real));
    a_poly_swap(s, n);
    VF_COUNT("w-poly/swap-reverses");
    for (size_t i = 0; i < n; ++i)
    {
        if (memcmp(&s[i], &a[n - 1 - i], WB) != 0) { vf_viol("poly_swap/not-the-reversed-vector/" W, "n=%zu cell %zu: %La, want %La", n, i, LD(s[i]), LD(a[n - 1 - i])); goto done; }
    }
    VF_COUNT("w-poly/eval(swap(a))==evar(a)-bitwise");
    t = a_poly_eval(s, n, x);
    if (memcmp(&t, &yr, WB) != 0) { vf_viol("poly_swap/eval-of-swapped-ne-evar/" W, "n=%zu: %La vs %La", n, LD(t), LD(yr)); goto done; }
    t = a_poly_evar(s, n, x);
    if (memcmp(&t, &ye, WB) != 0) { vf_viol("poly_swap/evar-of-swapped-ne-eval/" W, "n=%zu: %La vs %La", n, LD(t), LD(ye)); goto done; }
    a_poly_swap_(s, s + n);
    VF_COUNT("w-poly/swap-is-involution");
    for (size_t i = 0; i < n; ++i)
    {
        if (memcmp(&s[i], &a[i], WB) != 0) { vf_viol("poly_swap_/swap-of-swap-ne-identity/" W, "n=%zu cell %zu", n, i); goto done; }
    }
    vf_distinct(vf_hash64(vf_hash64(9, n), (uint64_t)exact));
    if (vf_want_sample() && c % 97 < 2) { vf_sample("poly[" W "] n=%zu %s: eval/evar %s, pointer-pair forms, swap/involution/eval(swap)==evar bitwise", n, exact ? "small integers" : "full-mantissa data", exact ? "== exact value" : "within gamma_2n sum|a_i||x|^i of binary128"); }
done:
    free(a);
    free(s);
}

static void vf_case(uint64_t c, vf_rng *r)
{
    if (c % 4 == 3) { poly_case(c / 4, r); }
    else { traj_case(c - c / 4, r); }
}
