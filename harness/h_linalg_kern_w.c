/* C09, other real widths (A_SIZE_REAL = 4 float, 16 long double): compact type-generic companion of h_linalg_kern.c (which
 * assumes a_real == double).  The four products on small-integer contents (exact in every width) against the definition,
 * and the two transposes on values that are NOT representable in a narrower type (so a temporary of the wrong type shows),
 * on exact-size blocks under ASan, compared bitwise.
 */
#define VF_PROP "C09"
#include "vf_common.h"
#include "a/linalg.h"
#if A_REAL_TYPE + 0 == A_REAL_SINGLE
#define W "f32"
#elif A_REAL_TYPE + 0 == A_REAL_EXTEND
#define W "f80"
#else
#define W "f64"
#endif
static a_real *blk(size_t n) { return (a_real *)malloc(n * sizeof(a_real) ? n * sizeof(a_real) : 1); }
static uint64_t vf_ncases(int tier) { return tier ? 8000 : 600; }

static a_real odd_value(vf_rng *r)
{
    /* full-precision values of the working type: k/10, 1 + k*eps, huge and tiny magnitudes */
    switch (vf_below(r, 4))
    {
    case 0: return (a_real)vf_range(r, -99, 99) / 10;
    case 1: return 1 + (a_real)vf_range(r, 1, 7) * A_REAL_EPSILON;
    case 2: return A_REAL_MAX / (a_real)vf_range(r, 1, 9);
    default: return A_REAL_MIN * (a_real)vf_range(r, 1, 9);
    }
}

static void vf_case(uint64_t c, vf_rng *r)
{
    unsigned const row = 1 + (unsigned)(c % 5), inn = 1 + (unsigned)(c / 5 % 5), col = 1 + (unsigned)(c / 25 % 5);
    a_real *X = blk((size_t)row * inn), *Y = blk((size_t)inn * col), *Z = blk((size_t)row * col), *XT = blk((size_t)row * inn), *YT = blk((size_t)inn * col);
    long ref;
    vf_log("kernels[" W "] row=%u inner=%u col=%u", row, inn, col);
    for (size_t i = 0; i < (size_t)row * inn; ++i) { X[i] = (a_real)vf_range(r, -9, 9); }
    for (size_t i = 0; i < (size_t)inn * col; ++i) { Y[i] = (a_real)vf_range(r, -9, 9); }
    for (unsigned i = 0; i < row; ++i) { for (unsigned k = 0; k < inn; ++k) { XT[(size_t)k * row + i] = X[(size_t)i * inn + k]; } }
    for (unsigned k = 0; k < inn; ++k) { for (unsigned j = 0; j < col; ++j) { YT[(size_t)j * inn + k] = Y[(size_t)k * col + j]; } }
    for (int v = 0; v < 4; ++v)
    {
        static char const *const nm[4] = {"mulmm", "mulTm", "mulmT", "mulTT"};
        for (size_t i = 0; i < (size_t)row * col; ++i) { Z[i] = (a_real)-777; }
        switch (v)
        {
        case 0: a_real_mulmm(row, inn, col, X, Y, Z); break;
        case 1: a_real_mulTm(inn, row, col, XT, Y, Z); break;
        case 2: a_real_mulmT(row, col, inn, X, YT, Z); break;
        default: a_real_mulTT(row, inn, col, XT, YT, Z); break;
        }
        ++vf.evals;
        VF_COUNT("w-products-vs-definition");
        for (unsigned i = 0; i < row; ++i)
        {
            for (unsigned j = 0; j < col; ++j)
            {
                ref = 0;
                for (unsigned k = 0; k < inn; ++k) { ref += (long)X[(size_t)i * inn + k] * (long)Y[(size_t)k * col + j]; }
                if (Z[(size_t)i * col + j] != (a_real)ref)
                {
                    char key[64];
                    snprintf(key, sizeof(key), "%s/entry-ne-exact-product/" W, nm[v]);
                    vf_viol(key, "%s %ux%ux%u: Z[%u][%u] = %.9Lg, expected %ld", nm[v], row, inn, col, i, j, (long double)Z[(size_t)i * col + j], ref);
                    goto done;
                }
            }
        }
        vf_distinct(vf_hash64(vf_hash64(vf_hash64(vf_hash64(3, (uint64_t)v), row), inn), col));
    }
    {
        /* transposes on full-precision values */
        unsigned const m = row, n = col;
        a_real *A = blk((size_t)m * n), *T = blk((size_t)m * n), *S = blk((size_t)n * n), *S0 = blk((size_t)n * n);
        for (size_t i = 0; i < (size_t)m * n; ++i) { A[i] = odd_value(r); }
        a_real_T2(m, n, A, T);
        ++vf.evals;
        VF_COUNT("w-transposes-exact");
        for (unsigned i = 0; i < m; ++i)
        {
            for (unsigned j = 0; j < n; ++j)
            {
                if (memcmp(&T[(size_t)j * m + i], &A[(size_t)i * n + j], sizeof(a_real) > 10 ? 10 : sizeof(a_real)) != 0) { vf_viol("T2/entry-ne-transposed-entry/" W, "%ux%u entry (%u,%u)", m, n, i, j); i = m; break; }
            }
        }
        for (size_t i = 0; i < (size_t)n * n; ++i) { S[i] = S0[i] = odd_value(r); }
        a_real_T1(n, S);
        for (unsigned i = 0; i < n; ++i)
        {
            for (unsigned j = 0; j < n; ++j)
            {
                if (memcmp(&S[(size_t)j * n + i], &S0[(size_t)i * n + j], sizeof(a_real) > 10 ? 10 : sizeof(a_real)) != 0) { vf_viol("T1/entry-ne-transposed-entry/" W, "%ux%u entry (%u,%u): %.21Lg vs %.21Lg", n, n, i, j, (long double)S[(size_t)j * n + i], (long double)S0[(size_t)i * n + j]); i = n; break; }
            }
        }
        a_real_T1(n, S);
        if (memcmp(S, S0, 0) != 0) { }
        for (size_t i = 0; i < (size_t)n * n; ++i)
        {
            if (memcmp(&S[i], &S0[i], sizeof(a_real) > 10 ? 10 : sizeof(a_real)) != 0) { vf_viol("T1/T1-of-T1-ne-identity/" W, "%ux%u cell %zu", n, n, i); break; }
        }
        free(A); free(T); free(S); free(S0);
    }
    if (vf_want_sample() && c % 53 == 0) { vf_sample("kernels[" W "] %ux%ux%u: mulmm/mulTm/mulmT/mulTT == integer definition; T2 and T1 bitwise exact on k/10, 1+k*eps, MAX/k, MIN*k", row, inn, col); }
done:
    free(X); free(Y); free(Z); free(XT); free(YT);
}
