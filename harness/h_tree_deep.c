/* C01 (AVL) / C02 (red-black, -DVF_TREE_RBT): configuration "deep" - trees TALLER THAN 32 LEVELS.
 *
 * h_tree.c never builds a tree above 4096 nodes (height <= 14), so any per-level bookkeeping of fixed width in the library
 * (a 32-bit turn mask, a 32-entry path stack, a 5-bit depth counter: seeded change C01-J) is exact there.  An AVL tree of
 * height h has at least Fib(h+2)-1 nodes and only the sparsest ("Fibonacci") shapes reach a height with that few; a
 * red-black tree filled in sorted order reaches about 2*log2(n).  This harness
 *
 *   AVL  builds, THROUGH a_avl_insert, one of two sparse shapes of L levels (a leaf has 1 level), L = 33..36:
 *          FIB(L)   root, deep child FIB(L-1), shallow child FIB(L-2)            Fib(L+2)-1 nodes   (34 -> 14 930 351)
 *                   every inner node has factor +-1: removing the deepest leaf shrinks EVERY ancestor (the retrace of
 *                   a_avl_remove runs L-1 levels), re-inserting it grows every ancestor (the retrace of a_avl_insert runs
 *                   L-1 levels), removing the shallowest leaf rotates on (almost) every level up to the root;
 *          SPINE(L) root, spine child SPINE(L-1), other child FIB(L-1)           Fib(L+3)-2 nodes   (33 -> 14 930 350)
 *                   every node on the spine is balanced: an insert below the last spine node carries the growth through
 *                   all L levels to the root (the history of seeded/C01-J/demo.c).
 *        Which side is the deep/spine side is decided per level by a mask drawn from the case rng (all left, all right,
 *        alternating, random).  The shape is inserted level by level (breadth first): every prefix of that order is a
 *        valid AVL tree, so a correct library never rotates and the designed shape is what comes out.
 *   RBT  inserts n = 2^21 (quick) / 2^23 (thorough) (+ a random surplus of up to n/4) keys in ascending, descending or outside-in
 *        order (40 / 44-45 levels, black height 20-23: removing the minimum recolours the whole all-black left side), or 2^20 / 2^21
 *        keys in random order (about 25 levels, mixed colouring); every second group of four cases links by hand + a_rbt_insert_adjust.
 *
 * Nodes live in ONE malloc block (node + key: 32 bytes packed, 40 unpacked), array index == in-order rank, key = 16*rank+8,
 * so every gap takes up to 15 new keys.  After the build the whole tree is judged by a full O(n) walker (iterative; order,
 * balance / colour clauses, parent links, every node reached exactly once and present in the model, element count), which
 * also fills per-node caches (height, black height, subtree size).  Then a few hundred operations, each logged, executed
 * through the library and judged at once by a REGION check whose cost is proportional to the height: from the root down
 * along the search paths of the touched key(s) (for a removal: the key, just above its in-order successor, just below
 * its in-order predecessor - wherever an implementation takes the replacement from, the nodes it rewrites lie there), plus the
 * off-path children and grandchildren of every path node (what a rotation or a recolouring can move); everything hanging
 * below that region is an untouched subtree and enters with its cached height/black height/size.  Checked on the region:
 * key order against the inherited bounds, factor == hR-hL and |hR-hL| <= 1 (AVL) / colours, no red-red edge, equal black
 * height (RBT), parent link of every child looked at, root's parent null (and root black), size of the root == model count.
 * The full walker is repeated after the first operations, periodically and at the end (it also catches a write outside the region).
 *
 * Built with UBSan only (flavour 'ubsan'): ASan's shadow and quarantine do not fit a 15..40 million node workload.  A removed
 * node is overwritten with 0xEE instead of being freed: a stale link to it leads the walkers to a node that is absent from the
 * model, and its own links are not addresses inside the block (reported, not followed).
 */
#ifdef VF_TREE_RBT
#include "a/rbt.h"
#define TN "rbt"
typedef a_rbt_node tnode;
typedef a_rbt troot;
#define T_(x) a_rbt_##x
#define META_MASK ((a_uptr)1)
#define VF_PROP "C02"
#else
#include "a/avl.h"
#define TN "avl"
typedef a_avl_node tnode;
typedef a_avl troot;
#define T_(x) a_avl_##x
#define META_MASK ((a_uptr)3)
#define VF_PROP "C01"
#endif
#include "vf_common.h"
#include <limits.h>

/* the walkers are harness code that touches every node: not instrumented (the library and the rest of the harness are) */
#define VF_NOSAN __attribute__((no_sanitize("undefined")))

/* node layout (as in h_tree.c) */
#ifdef VF_TREE_RBT
#if defined(A_SIZE_POINTER) && (A_SIZE_POINTER + 0 > 1)
#define VF_PACKED 1
#else
#define VF_PACKED 0
#endif
#else
#if defined(A_SIZE_POINTER) && (A_SIZE_POINTER + 0 > 3)
#define VF_PACKED 1
#else
#define VF_PACKED 0
#endif
#endif
#if VF_PACKED
VF_NOSAN static inline unsigned meta_of(tnode const *n) { return (unsigned)(n->parent_ & META_MASK); }
VF_NOSAN static inline tnode *parent_of(tnode const *n) { return (tnode *)(n->parent_ & ~META_MASK); }
#elif defined(VF_TREE_RBT)
VF_NOSAN static inline unsigned meta_of(tnode const *n) { return n->color <= 1 ? n->color : 2u; }
VF_NOSAN static inline tnode *parent_of(tnode const *n) { return n->parent; }
#else
VF_NOSAN static inline unsigned meta_of(tnode const *n) { return (n->factor >= -1 && n->factor <= 1) ? (unsigned)(n->factor + 1) : 3u; }
VF_NOSAN static inline tnode *parent_of(tnode const *n) { return n->parent; }
#endif

typedef struct dnode
{
    tnode n; /* must stay first */
    int32_t key;
} dnode;

#define KS 16 /* key = KS*rank + KMID for the nodes of the built tree; the other residues are the gaps */
#define KMID 8
#define MAXDEPTH 120

/* comparator result styles as in h_tree.c: only the sign is contract */
static int cmp_style;
static inline int cmp_shape(int32_t a, int32_t b)
{
    switch (cmp_style)
    {
    case 1: return a - b; /* keys are in [1, 2^30): no overflow */
    case 2: return a < b ? INT_MIN : a > b ? INT_MAX : 0;
    default: return (a > b) - (a < b);
    }
}
static unsigned ncmp; /* comparator calls of the current library call == levels descended */
static int cmp_node(void const *l, void const *r) { ++ncmp; return cmp_shape(((dnode const *)l)->key, ((dnode const *)r)->key); }
static int cmp_key(void const *ctx, void const *r) { ++ncmp; return cmp_shape(*(int32_t const *)ctx, ((dnode const *)r)->key); }

/* ============================================================ pool, caches, model */
static dnode *pool;
static size_t norig, npool, nextra_used;
static uint8_t *present; /* model: node idx is an element of the tree */
static uint64_t mcount;  /* model: number of elements */
static int8_t *ht;       /* cached height (levels) of the subtree rooted at idx */
static uint32_t *szc;    /* cached size of the subtree rooted at idx */
#ifdef VF_TREE_RBT
static int8_t *bhc; /* cached black height (counting the node itself) */
#endif
static uint8_t *vis; /* full walker: epoch mark */
static uint8_t vis_epoch;

typedef struct { int32_t key; uint32_t idx; } xent;
static xent *xs; /* present extra nodes, sorted by key */
static int nxs;
static uint32_t *gone; /* removed nodes of the built tree (may be re-inserted) */
static int ngone;

VF_NOSAN static inline int64_t idx_of(void const *p)
{
    uintptr_t const a = (uintptr_t)p, b = (uintptr_t)pool;
    size_t off;
    if (a < b) { return -1; }
    off = (size_t)(a - b);
    if (off >= npool * sizeof(dnode) || off % sizeof(dnode)) { return -1; }
    return (int64_t)(off / sizeof(dnode));
}
VF_NOSAN static inline int32_t key_of(tnode const *x) { return ((dnode const *)x)->key; }

static int xs_find(int32_t key)
{
    int lo = 0, hi = nxs;
    while (lo < hi)
    {
        int mid = (lo + hi) / 2;
        if (xs[mid].key < key) { lo = mid + 1; }
        else { hi = mid; }
    }
    return lo;
}
/* idx of the element with this key, -1 if the model does not hold it */
static int64_t model_idx(int32_t key)
{
    if (key <= 0) { return -1; }
    if (key % KS == KMID)
    {
        size_t r = (size_t)(key / KS);
        return (r < norig && present[r]) ? (int64_t)r : -1;
    }
    {
        int p = xs_find(key);
        return (p < nxs && xs[p].key == key) ? (int64_t)xs[p].idx : -1;
    }
}
static void model_add(dnode *d)
{
    size_t idx = (size_t)(d - pool);
    present[idx] = 1;
    ++mcount;
    if (idx >= norig)
    {
        int p = xs_find(d->key);
        memmove(xs + p + 1, xs + p, (size_t)(nxs - p) * sizeof(xent));
        xs[p].key = d->key;
        xs[p].idx = (uint32_t)idx;
        ++nxs;
    }
    else
    {
        for (int i = 0; i < ngone; ++i)
        {
            if (gone[i] == idx) { gone[i] = gone[--ngone]; break; }
        }
    }
}
static void model_del(dnode *d)
{
    size_t idx = (size_t)(d - pool);
    present[idx] = 0;
    --mcount;
    if (idx >= norig)
    {
        int p = xs_find(d->key);
        memmove(xs + p, xs + p + 1, (size_t)(nxs - p - 1) * sizeof(xent));
        --nxs;
    }
    else { gone[ngone++] = (uint32_t)idx; }
}

/* ============================================================ reporting */
static char const *opname = "op";
static int broken; /* a structural clause failed in this case: stop operating on the tree */
static int nfail;  /* reports in the current walk */

#define DFAIL(clause, ...)                                              \
    do {                                                                \
        broken = 1;                                                     \
        if (nfail++ < 6)                                                \
        {                                                               \
            char key_[112];                                             \
            snprintf(key_, sizeof(key_), TN "/deep/%s/%s", opname, clause); \
            vf_viol(key_, __VA_ARGS__);                                 \
        }                                                               \
    } while (0)

/* ============================================================ full walker: O(n), trusts child links only after range-checking them */
typedef struct
{
    int ok;
    uint64_t n;
    int height;
    uint64_t at_designed_depth; /* nodes found at the depth the shape generator planned (AVL build) */
} fullres;

VF_NOSAN static fullres full_walk(troot const *root, uint8_t const *designed_depth)
{
    fullres res = {1, 0, 0, 0};
    static struct
    {
        tnode *x;
        int state;
        int hl, bl;
        uint32_t sl;
    } st[MAXDEPTH + 4];
    int sp = 0;
    int last_h = 0, last_b = 0;
    uint32_t last_s = 0;
    int have_last = 0;
    int32_t last_key = 0;
    uint64_t cnt = 0;
    int const fail0 = broken;
    nfail = 0;
    broken = 0;
    VF_COUNT("deep-full-walks");
    if (++vis_epoch == 0)
    {
        memset(vis, 0, npool);
        vis_epoch = 1;
    }
    if (!root->node)
    {
        if (mcount) { DFAIL("lost-elements", "tree empty but the model holds %" PRIu64 " elements", mcount); }
        goto out;
    }
    if (idx_of(root->node) < 0) { DFAIL("foreign-node", "root %p is not a node of the pool", (void *)root->node); goto out; }
    if (parent_of(root->node) != NULL) { DFAIL("root-parent-not-null", "root's parent link is %p", (void *)parent_of(root->node)); }
#ifdef VF_TREE_RBT
    if (meta_of(root->node) != 1) { DFAIL("root-not-black", "root (key %d) is not black", key_of(root->node)); }
#endif
    st[0].x = root->node;
    st[0].state = 0;
    sp = 1;
    while (sp)
    {
        tnode *x = st[sp - 1].x;
        if (st[sp - 1].state == 0)
        {
            int64_t const xi = idx_of(x); /* validated by whoever pushed it */
            st[sp - 1].state = 1;
            if (vis[xi] == vis_epoch) { DFAIL("node-reached-twice", "key %d is reachable over two links", key_of(x)); goto out; }
            vis[xi] = vis_epoch;
            if (!present[xi]) { DFAIL("stale-node-reachable", "node %" PRId64 " (key %d) is linked into the tree but is not an element (removed or never inserted)", xi, key_of(x)); goto out; }
            if (++cnt > mcount + 1) { DFAIL("element-count", "more than %" PRIu64 " nodes reachable", mcount); goto out; }
            if (designed_depth && (size_t)xi < norig && designed_depth[xi] == sp - 1) { ++res.at_designed_depth; }
            if (x->left)
            {
                if (idx_of(x->left) < 0) { DFAIL("foreign-node", "left link of key %d (%p) is not a node of the pool", key_of(x), (void *)x->left); goto out; }
                if (parent_of(x->left) != x) { DFAIL("parent-link-mismatch", "left child (key %d) of key %d has parent link %p", key_of(x->left), key_of(x), (void *)parent_of(x->left)); }
                if (sp >= MAXDEPTH) { DFAIL("too-deep", "more than %d levels", MAXDEPTH); goto out; }
                st[sp].x = x->left;
                st[sp].state = 0;
                ++sp;
                continue;
            }
            last_h = 0;
            last_b = 0;
            last_s = 0;
        }
        if (st[sp - 1].state == 1)
        {
            st[sp - 1].hl = last_h;
            st[sp - 1].bl = last_b;
            st[sp - 1].sl = last_s;
            st[sp - 1].state = 2;
            if (have_last && !(last_key < key_of(x))) { DFAIL("order-violated", "in-order keys %d then %d", last_key, key_of(x)); }
            last_key = key_of(x);
            have_last = 1;
            if (x->right)
            {
                if (idx_of(x->right) < 0) { DFAIL("foreign-node", "right link of key %d (%p) is not a node of the pool", key_of(x), (void *)x->right); goto out; }
                if (parent_of(x->right) != x) { DFAIL("parent-link-mismatch", "right child (key %d) of key %d has parent link %p", key_of(x->right), key_of(x), (void *)parent_of(x->right)); }
                if (sp >= MAXDEPTH) { DFAIL("too-deep", "more than %d levels", MAXDEPTH); goto out; }
                st[sp].x = x->right;
                st[sp].state = 0;
                ++sp;
                continue;
            }
            last_h = 0;
            last_b = 0;
            last_s = 0;
        }
        {
            int const hl = st[sp - 1].hl, hr = last_h, bl = st[sp - 1].bl, br = last_b;
            unsigned const m = meta_of(x);
            int64_t const xi = idx_of(x);
#ifdef VF_TREE_RBT
            if (m > 1) { DFAIL("colour-undefined", "key %d: colour member holds neither red (0) nor black (1)", key_of(x)); }
            if (bl != br) { DFAIL("black-height-mismatch", "key %d: black height left %d right %d", key_of(x), bl, br); }
            if (m == 0 && ((x->left && meta_of(x->left) == 0) || (x->right && meta_of(x->right) == 0))) { DFAIL("red-red", "red key %d has a red child", key_of(x)); }
            last_b = bl + (m ? 1 : 0);
            bhc[xi] = (int8_t)last_b;
#else
            int const f = (int)m - 1;
            if (m == 3) { DFAIL("factor-undefined", "key %d: stored factor bits are 11", key_of(x)); }
            else if (f != hr - hl) { DFAIL("factor-mismatch", "key %d (depth %d): stored factor %d, heights left %d right %d", key_of(x), sp - 1, f, hl, hr); }
            if (hr - hl > 1 || hl - hr > 1) { DFAIL("height-difference-exceeds-one", "key %d (depth %d): heights left %d right %d", key_of(x), sp - 1, hl, hr); }
            last_b = 0;
            (void)bl;
            (void)br;
#endif
            last_h = 1 + (hl > hr ? hl : hr);
            last_s = 1 + st[sp - 1].sl + last_s;
            ht[xi] = (int8_t)last_h;
            szc[xi] = last_s;
        }
        --sp;
    }
    res.height = last_h;
    if (cnt != mcount) { DFAIL("element-count", "tree holds %" PRIu64 " nodes, the model %" PRIu64, cnt, mcount); }
out:
    res.n = cnt;
    res.ok = !broken;
    broken |= fail0;
    return res;
}

/* ============================================================ region check: cost proportional to the height */
typedef struct
{
    int64_t t[3]; /* targets in doubled key units: 2k = the key itself, 2k+1 just above, 2k-1 just below */
    int nt;
    uint64_t hash;
    int nodes;
    int stop;
} rctx;
typedef struct { int h, b; uint32_t s; } rval;

VF_NOSAN static rval reval(rctx *c, tnode *x, int64_t lo, int64_t hi, int slack, int depth);

VF_NOSAN static rval rchild(rctx *c, tnode *x, tnode *ch, char const *side, int64_t lo, int64_t hi, int slack, int depth)
{
    rval z = {0, 0, 0};
    int64_t ci;
    int on = 0;
    if (!ch || c->stop) { return z; }
    ci = idx_of(ch);
    if (ci < 0) { DFAIL("foreign-node", "%s link of key %d (%p) is not a node of the pool", side, key_of(x), (void *)ch); c->stop = 1; return z; }
    if (!present[ci]) { DFAIL("stale-node-reachable", "%s link of key %d leads to node %" PRId64 " (key %d), which is not an element (removed or never inserted)", side, key_of(x), ci, key_of(ch)); c->stop = 1; return z; }
    if (parent_of(ch) != x) { DFAIL("parent-link-mismatch", "%s child (key %d) of key %d has parent link %p", side, key_of(ch), key_of(x), (void *)parent_of(ch)); }
    for (int i = 0; i < c->nt; ++i)
    {
        if (lo < c->t[i] && c->t[i] < hi) { on = 1; }
    }
    if (on) { slack = 2; }
    else if (slack == 0)
    {
        /* untouched subtree: cached values */
        z.h = ht[ci];
        z.s = szc[ci];
#ifdef VF_TREE_RBT
        z.b = bhc[ci];
#endif
        return z;
    }
    else { --slack; }
    if (depth >= MAXDEPTH) { DFAIL("too-deep", "more than %d levels below the root on the path of the operation", MAXDEPTH); c->stop = 1; return z; }
    return reval(c, ch, lo, hi, slack, depth + 1);
}

VF_NOSAN static rval reval(rctx *c, tnode *x, int64_t lo, int64_t hi, int slack, int depth)
{
    rval z, l, r;
    int64_t const xi = idx_of(x);
    int64_t const k2 = 2 * (int64_t)key_of(x);
    unsigned const m = meta_of(x);
    ++c->nodes;
    if (!(lo < k2 && k2 < hi)) { DFAIL("order-violated", "key %d at depth %d lies outside the bounds inherited from its ancestors", key_of(x), depth); }
    l = rchild(c, x, x->left, "left", lo, k2, slack, depth);
    r = rchild(c, x, x->right, "right", k2, hi, slack, depth);
    z.h = 1 + (l.h > r.h ? l.h : r.h);
    z.s = 1 + l.s + r.s;
    z.b = 0;
    if (c->stop) { return z; }
#ifdef VF_TREE_RBT
    if (m > 1) { DFAIL("colour-undefined", "key %d: colour member holds neither red (0) nor black (1)", key_of(x)); }
    if (l.b != r.b) { DFAIL("black-height-mismatch", "key %d (depth %d): black height left %d right %d", key_of(x), depth, l.b, r.b); }
    if (m == 0 && ((x->left && meta_of(x->left) == 0) || (x->right && meta_of(x->right) == 0))) { DFAIL("red-red", "red key %d (depth %d) has a red child", key_of(x), depth); }
    z.b = l.b + (m ? 1 : 0);
    bhc[xi] = (int8_t)z.b;
#else
    if (m == 3) { DFAIL("factor-undefined", "key %d: stored factor bits are 11", key_of(x)); }
    else if ((int)m - 1 != r.h - l.h) { DFAIL("factor-mismatch", "key %d (depth %d): stored factor %d, heights left %d right %d", key_of(x), depth, (int)m - 1, l.h, r.h); }
    if (r.h - l.h > 1 || l.h - r.h > 1) { DFAIL("height-difference-exceeds-one", "key %d (depth %d): heights left %d right %d", key_of(x), depth, l.h, r.h); }
#endif
    ht[xi] = (int8_t)z.h;
    szc[xi] = z.s;
    c->hash = vf_hash64(c->hash, (uint64_t)xi * 8 + m);
    c->hash = vf_hash64(c->hash, (uint64_t)(x->left ? idx_of(x->left) + 1 : 0) * 0x100000001ULL + (uint64_t)(x->right ? idx_of(x->right) + 1 : 0));
    return z;
}

/* returns 1 if every clause held; *hash = hash of the region (node identities, links, meta) */
static int region_check(troot const *root, int64_t const *targets, int nt, uint64_t *hash)
{
    rctx c;
    int const fail0 = broken;
    memset(&c, 0, sizeof(c));
    c.nt = nt;
    for (int i = 0; i < nt; ++i) { c.t[i] = targets[i]; }
    c.hash = 0xD33B;
    nfail = 0;
    broken = 0;
    VF_COUNT("deep-region-checks");
    if (!root->node)
    {
        if (mcount) { DFAIL("lost-elements", "tree empty but the model holds %" PRIu64 " elements", mcount); }
    }
    else if (idx_of(root->node) < 0) { DFAIL("foreign-node", "root %p is not a node of the pool", (void *)root->node); }
    else if (!present[idx_of(root->node)]) { DFAIL("stale-node-reachable", "the root (key %d) is not an element", key_of(root->node)); }
    else
    {
        rval z;
        if (parent_of(root->node) != NULL) { DFAIL("root-parent-not-null", "root's parent link is %p", (void *)parent_of(root->node)); }
#ifdef VF_TREE_RBT
        if (meta_of(root->node) != 1) { DFAIL("root-not-black", "root (key %d) is not black", key_of(root->node)); }
#endif
        z = reval(&c, root->node, INT64_MIN, INT64_MAX, 2, 0);
        if (!c.stop && z.s != mcount) { DFAIL("element-count", "tree holds %u nodes (sizes of the untouched subtrees + the region), the model %" PRIu64, z.s, mcount); }
    }
    VF_ADD("deep-region-nodes", c.nodes);
    if (hash) { *hash = c.hash; }
    {
        int ok = !broken;
        broken |= fail0;
        return ok;
    }
}

/* ============================================================ own navigation (never the library's iterators) */
static int depth_of_node(tnode const *x)
{
    int d = 0;
    while (d < 2 * MAXDEPTH)
    {
        tnode const *p = parent_of(x);
        if (!p || idx_of(p) < 0) { break; }
        x = p;
        ++d;
    }
    return d;
}
static tnode *inorder_step(tnode *x, int dir) /* dir +1 successor, -1 predecessor; links were judged by the previous check */
{
    tnode *c = dir > 0 ? x->right : x->left;
    int guard = 0;
    if (c)
    {
        while ((dir > 0 ? c->left : c->right) && ++guard < 2 * MAXDEPTH) { c = dir > 0 ? c->left : c->right; }
        return c;
    }
    for (;;)
    {
        tnode *p = parent_of(x);
        if (!p || ++guard > 2 * MAXDEPTH) { return NULL; }
        if ((dir > 0 ? p->left : p->right) == x) { return p; }
        x = p;
    }
}
static inline int h_of(tnode const *x) { return x ? ht[idx_of(x)] : 0; }
/* a deepest leaf (cached heights; ties by the rng) */
static tnode *descend_deep(troot const *root, vf_rng *r)
{
    tnode *x = root->node;
    while (x && (x->left || x->right))
    {
        int const hl = h_of(x->left), hr = h_of(x->right);
        x = hl > hr ? x->left : hr > hl ? x->right : (vf_u64(r) & 1) ? x->left : x->right;
    }
    return x;
}
/* a leaf reached by always taking the lower side */
static tnode *descend_shallow(troot const *root, vf_rng *r)
{
    tnode *x = root->node;
    while (x && (x->left || x->right))
    {
        int const hl = h_of(x->left), hr = h_of(x->right);
        if (!x->left) { x = x->right; }
        else if (!x->right) { x = x->left; }
        else { x = hl < hr ? x->left : hr < hl ? x->right : (vf_u64(r) & 1) ? x->left : x->right; }
    }
    return x;
}

/* ============================================================ judged operations */
static uint64_t n_ops;
static int max_ins_depth, max_rem_depth;

static void poison(dnode *d) { memset(&d->n, 0xEE, sizeof(d->n)); }

static dnode *extra_new(int32_t key)
{
    dnode *d;
    if (norig + nextra_used >= npool) { return NULL; }
    d = pool + norig + nextra_used++;
    poison(d); /* the library has to initialise every member it relies on */
    d->key = key;
    return d;
}

static tnode *insert_lowlevel(troot *root, dnode *h)
{
    tnode *parent = NULL, **link = &root->node;
    while (*link)
    {
        int c;
        parent = *link;
        c = cmp_node(h, parent);
        if (c < 0) { link = &parent->left; }
        else if (c > 0) { link = &parent->right; }
        else { return parent; }
    }
    *link = T_(init)(&h->n, parent);
    T_(insert_adjust)(root, &h->n);
    return NULL;
}

/* insert node d (fresh or previously removed; key set). what: text for the log */
static int do_insert(troot *root, dnode *d, int lowlevel, char const *what)
{
    int64_t const had = model_idx(d->key);
    int64_t t = 2 * (int64_t)d->key;
    uint64_t h0 = 0, h1 = 0;
    int const hroot0 = h_of(root->node);
    tnode *ret;
    opname = had >= 0 ? "dup-insert" : lowlevel ? "insert_adjust" : "insert";
    nfail = 0;
    vf_log("%s key %d (node %" PRId64 ") %s", opname, d->key, idx_of(d), what);
    if (had >= 0 && !region_check(root, &t, 1, &h0)) { return 0; }
    ncmp = 0;
    ret = lowlevel ? insert_lowlevel(root, d) : T_(insert)(root, &d->n, cmp_node);
    ++vf.evals;
    ++n_ops;
    if (had >= 0)
    {
        VF_COUNT("deep-dup-insert-judged");
        if (ret != &pool[had].n) { DFAIL("did-not-return-resident", "duplicate insert of key %d returned %p, the resident node is %p", d->key, (void *)ret, (void *)&pool[had].n); }
        if (&pool[had] != d) { poison(d); } /* if it was linked in anyway the walkers meet a node that is not an element */
        if (!region_check(root, &t, 1, &h1)) { return 0; }
        if (h0 != h1) { DFAIL("tree-changed", "duplicate insert of key %d changed the nodes along its search path", d->key); return 0; }
        vf_distinct(h1);
        return !broken;
    }
    VF_COUNT("deep-insert-judged");
    if (ret != NULL) { DFAIL("new-key-reported-as-duplicate", "insert of absent key %d returned %p", d->key, (void *)ret); }
    model_add(d);
    if (!region_check(root, &t, 1, &h1)) { return 0; }
    vf_distinct(h1);
    {
        int const dep = (int)ncmp + 1; /* level at which the new node was linked (root = 1), before any rotation */
        int const hroot1 = h_of(root->node);
        if (dep > max_ins_depth) { max_ins_depth = dep; }
        if (ncmp >= 33) { VF_COUNT("deep-insert-descends-33-or-more-levels"); }
        if (ncmp >= 33 && hroot1 != hroot0) { VF_COUNT("deep-insert-33-levels-down-changes-height-of-root"); } /* the retrace ran the whole way up */
    }
    return !broken;
}

static int do_remove(troot *root, dnode *d, char const *what)
{
    int64_t t[3];
    int nt = 0;
    uint64_t h1;
    tnode *s, *p;
    int const dep = depth_of_node(&d->n) + 1;
    int const hroot0 = h_of(root->node);
    int const nchild = (d->n.left ? 1 : 0) + (d->n.right ? 1 : 0);
    int sdep = dep;
    opname = "remove";
    nfail = 0;
    t[nt++] = 2 * (int64_t)d->key;
    s = inorder_step(&d->n, +1);
    p = inorder_step(&d->n, -1);
    if (s) { t[nt++] = 2 * (int64_t)key_of(s) + 1; }
    if (p) { t[nt++] = 2 * (int64_t)key_of(p) - 1; }
    if (nchild == 2 && s) { sdep = depth_of_node(s) + 1; }
    vf_log("remove key %d (node %" PRId64 ", level %d, %d child%s) %s", d->key, idx_of(d), dep, nchild, nchild == 1 ? "" : "ren", what);
    T_(remove)(root, &d->n);
    ++vf.evals;
    ++n_ops;
    VF_COUNT("deep-remove-judged");
    model_del(d);
    poison(d);
    if (!region_check(root, t, nt, &h1)) { return 0; }
    vf_distinct(h1);
    if (sdep > max_rem_depth) { max_rem_depth = sdep; }
    if (sdep > 33) { VF_COUNT("deep-remove-33-or-more-levels-down"); } /* the node unlinked (itself or its in-order successor) had >= 33 ancestors */
    if (sdep > 33 && h_of(root->node) != hroot0) { VF_COUNT("deep-remove-33-levels-down-changes-height-of-root"); }
    return !broken;
}

static void do_search(troot *root, int32_t key)
{
    int64_t const want = model_idx(key);
    tnode *got;
    opname = "search";
    nfail = 0;
    vf_log("search key %d (%s)", key, want >= 0 ? "present" : "absent");
    ncmp = 0;
    got = T_(search)(root, &key, cmp_key);
    if (ncmp >= 33) { VF_COUNT("deep-search-descends-33-or-more-levels"); }
    ++vf.evals;
    ++n_ops;
    VF_COUNT("deep-search-judged");
    if (want >= 0 && got != &pool[want].n) { DFAIL("present-key-not-found", "key %d: search returned %p, the element is %p", key, (void *)got, (void *)&pool[want].n); broken = 0; }
    if (want < 0 && got) { DFAIL("absent-key-found", "key %d -> %p", key, (void *)got); broken = 0; }
}

/* a key next to `key` that the model does not hold; 0 if both neighbours are taken */
static int32_t free_neighbour(int32_t key, vf_rng *r)
{
    int const first = (vf_u64(r) & 1) ? 1 : -1;
    for (int d = 1; d < KS / 2; ++d)
    {
        if (key + first * d > 0 && model_idx(key + first * d) < 0 && (key + first * d) % KS != KMID) { return key + first * d; }
        if (key - first * d > 0 && model_idx(key - first * d) < 0 && (key - first * d) % KS != KMID) { return key - first * d; }
    }
    return 0;
}
static int32_t random_gap_key(vf_rng *r)
{
    int32_t k;
    do {
        k = (int32_t)(vf_below(r, (uint64_t)norig + 1) * KS + vf_below(r, KS));
    } while (k <= 0 || k % KS == KMID);
    return k;
}
static dnode *random_present(vf_rng *r)
{
    for (int i = 0; i < 64; ++i)
    {
        size_t k = (size_t)vf_below(r, norig);
        if (present[k]) { return pool + k; }
    }
    return NULL;
}

static int full_every;
static uint64_t ops_since_full;
static int maybe_full(troot *root, int force)
{
    fullres w;
    if (!force && (full_every <= 0 || ops_since_full < (uint64_t)full_every)) { return 1; }
    ops_since_full = 0;
    opname = "full-walk";
    w = full_walk(root, NULL);
    VF_MAX("deep-height-seen", (double)w.height);
    return w.ok;
}

/* a leaf all of whose ancestors are balanced (the end of the spine of SPINE(L)): a new child makes every ancestor up to the root
   grow, taking the first of two children away again makes every one of them shrink */
static void hot_ops(troot *root, vf_rng *r, dnode *leaf, int nfull)
{
    int32_t const ka = leaf->key + ((vf_u64(r) & 1) ? 1 : -1), kb = 2 * leaf->key - ka;
    dnode *a, *b;
    if (!(a = extra_new(ka))) { return; }
    if (!do_insert(root, a, 0, "below the last node of the balanced spine")) { return; }
    if (nfull > 0 && !maybe_full(root, 1)) { return; }
    if (!do_remove(root, a, "the only child of the last spine node")) { return; }
    if (nfull > 1 && !maybe_full(root, 1)) { return; }
    if (!(a = extra_new(ka)) || !(b = extra_new(kb))) { return; }
    if (!do_insert(root, a, 1, "below the last node of the balanced spine")) { return; }
    if (!do_insert(root, b, 0, "second child of the last spine node")) { return; }
    if (!do_remove(root, a, "one of the two children of the last spine node")) { return; }
    if (!do_remove(root, b, "the only child of the last spine node")) { return; }
    if (nfull > 2) { maybe_full(root, 1); }
}

/* the scripted prologue + random operations */
static void run_ops(troot *root, vf_rng *r, int nops, int nfull_first, int64_t hot)
{
    int done = 0;
    uint32_t mark = vf_log_mark();
    if (hot >= 0) { hot_ops(root, r, pool + hot, nfull_first); nfull_first = 0; }
    /* ---- prologue: the situations that need the height, in a fixed order */
    static int const plan[] = {0, 14, 15, 1, 2, 3, 4, 5, 6, 7, 8, 9, 10, 11, 12, 13};
    for (int si = 0; si < (int)(sizeof(plan) / sizeof(plan[0])) && !broken; ++si, ++done)
    {
        int const step = plan[si];
        tnode *x;
        int32_t k;
        dnode *d;
        switch (step)
        {
        case 14: /* a deepest leaf of the untouched tree: on FIB(L) it is unique and every ancestor leans towards it, so all L-1 of them shrink */
            x = descend_deep(root, r);
            if (x) { do_remove(root, (dnode *)x, "a deepest leaf of the tree as built"); }
            break;
        case 15: /* ... and the same node again: now every ancestor is balanced and all of them grow */
            if (ngone) { do_insert(root, pool + gone[ngone - 1], 0, "the deepest leaf just removed"); }
            break;
        case 0: /* lookups at both ends of the depth range and of an absent key */
            x = descend_deep(root, r);
            if (x) { do_search(root, key_of(x)); }
            x = descend_shallow(root, r);
            if (x) { do_search(root, key_of(x)); }
            do_search(root, random_gap_key(r));
            break;
        case 1: /* new leaf below a deepest leaf */
        case 3:
            x = descend_deep(root, r);
            k = x ? free_neighbour(key_of(x), r) : 0;
            if (k && (d = extra_new(k))) { do_insert(root, d, step == 3, "below a deepest leaf"); }
            break;
        case 2: /* take a deepest leaf away again */
        case 4:
        case 5:
            x = descend_deep(root, r);
            if (x) { do_remove(root, (dnode *)x, "a deepest leaf"); }
            break;
        case 6: /* put the removed nodes of the built tree back (the same node objects) */
            while (ngone && !broken) { do_insert(root, pool + gone[ngone - 1], 0, "re-insert of a removed node"); }
            break;
        case 7: /* shallowest leaf: the classical rotation cascade */
            x = descend_shallow(root, r);
            if (x) { do_remove(root, (dnode *)x, "a leaf on the lowest side of every ancestor"); }
            break;
        case 8:
            if (root->node) { do_remove(root, (dnode *)root->node, "the root"); }
            break;
        case 9: /* duplicate of a deepest key: fresh node, then the resident object itself */
            x = descend_deep(root, r);
            if (x && (d = extra_new(key_of(x))))
            {
                do_insert(root, d, 0, "fresh node with the key of a deepest leaf");
                --nextra_used; /* the slot was not consumed */
                if (!broken) { do_insert(root, (dnode *)x, 0, "the resident deepest leaf itself"); }
            }
            break;
        case 10: /* minimum and maximum */
            for (x = root->node; x && x->left;) { x = x->left; }
            if (x) { do_remove(root, (dnode *)x, "the minimum"); }
            for (x = root->node; x && x->right && !broken;) { x = x->right; }
            if (x && !broken) { do_remove(root, (dnode *)x, "the maximum"); }
            break;
        case 11: /* new minimum / maximum */
            if ((d = extra_new(1 + (int32_t)vf_below(r, KMID - 1)))) { do_insert(root, d, 0, "new minimum"); }
            if (!broken && (d = extra_new((int32_t)(norig * KS + 1 + vf_below(r, KMID - 1))))) { do_insert(root, d, 1, "new maximum"); }
            break;
        case 12:
            x = descend_shallow(root, r);
            k = x ? free_neighbour(key_of(x), r) : 0;
            if (k && (d = extra_new(k))) { do_insert(root, d, 0, "next to a leaf on the lowest side"); }
            break;
        default:
            while (ngone && !broken) { do_insert(root, pool + gone[ngone - 1], vf_chance(r, 1, 3), "re-insert of a removed node"); }
            break;
        }
        if (!broken && si < nfull_first) { maybe_full(root, 1); }
    }
    /* ---- random operations */
    for (; done < nops && !broken; ++done)
    {
        unsigned const op = (unsigned)vf_below(r, 22);
        tnode *x;
        dnode *d;
        int32_t k;
        if (vf.jr->text_len > VF_JOURNAL_TEXT - 4096) { vf_log_rewind(mark); vf_log("... (earlier operations dropped from the log; --explain prints all of them)"); }
        switch (op)
        {
        case 0: case 1: /* below a deepest leaf */
            x = descend_deep(root, r);
            k = x ? free_neighbour(key_of(x), r) : 0;
            if (k && (d = extra_new(k))) { do_insert(root, d, op == 1, "below a deepest leaf"); }
            break;
        case 2: /* next to a shallow leaf */
            x = descend_shallow(root, r);
            k = x ? free_neighbour(key_of(x), r) : 0;
            if (k && (d = extra_new(k))) { do_insert(root, d, 0, "next to a leaf on the lowest side"); }
            break;
        case 3: case 4: /* random gap (a key that is already there becomes a duplicate insert) */
            k = random_gap_key(r);
            if ((d = extra_new(k)))
            {
                int const dup = model_idx(k) >= 0;
                do_insert(root, d, op == 4, "random gap");
                if (dup) { --nextra_used; }
            }
            break;
        case 5: /* re-insert a removed node of the built tree */
            if (ngone) { do_insert(root, pool + gone[vf_below(r, (uint64_t)ngone)], vf_chance(r, 1, 3), "re-insert of a removed node"); }
            break;
        case 6: case 7:
            x = descend_shallow(root, r);
            if (x) { do_remove(root, (dnode *)x, "a leaf on the lowest side of every ancestor"); }
            break;
        case 8:
            if (root->node) { do_remove(root, (dnode *)root->node, "the root"); }
            break;
        case 9: case 10:
            d = random_present(r);
            if (d) { do_remove(root, d, "random element"); }
            break;
        case 11: case 12:
            x = descend_deep(root, r);
            if (x) { do_remove(root, (dnode *)x, "a deepest leaf"); }
            break;
        case 13: /* an element high up: a child or grandchild of the root */
            x = root->node;
            for (int i = 1 + (int)vf_below(r, 3); x && i > 0; --i)
            {
                tnode *y = (vf_u64(r) & 1) ? x->left : x->right;
                if (!y) { break; }
                x = y;
            }
            if (x) { do_remove(root, (dnode *)x, "an element near the root"); }
            break;
        case 14:
            if (nxs) { do_remove(root, pool + xs[vf_below(r, (uint64_t)nxs)].idx, "an element inserted earlier"); }
            break;
        case 15: /* duplicates */
            d = vf_chance(r, 1, 2) ? random_present(r) : (dnode *)descend_deep(root, r);
            if (d)
            {
                if (vf_chance(r, 1, 2)) { do_insert(root, d, 0, "the resident node itself"); }
                else
                {
                    dnode *f = extra_new(d->key);
                    if (f) { do_insert(root, f, vf_chance(r, 1, 3), "fresh node with a resident key"); --nextra_used; }
                }
            }
            break;
        case 16:
            d = random_present(r);
            if (d) { do_search(root, d->key); }
            break;
        case 17:
            x = vf_chance(r, 1, 2) ? descend_deep(root, r) : descend_shallow(root, r);
            if (x) { do_search(root, key_of(x)); }
            break;
        case 18:
            do_search(root, random_gap_key(r));
            break;
        case 20: case 21: /* take a deepest leaf away and put the same node back at once: on a sparse tree both retraces run far up */
            x = descend_deep(root, r);
            if (x && do_remove(root, (dnode *)x, "a deepest leaf (to be put back)")) { do_insert(root, (dnode *)x, op == 21, "the node just removed"); }
            break;
        default:
            if (ngone) { do_search(root, pool[gone[vf_below(r, (uint64_t)ngone)]].key); }
            else { do_search(root, (int32_t)(norig * KS + KMID + KS * vf_below(r, 4))); }
            break;
        }
        ++ops_since_full;
        if (!broken) { maybe_full(root, 0); }
    }
}

/* ============================================================ memory */
static int pool_alloc(size_t n, size_t extra)
{
    norig = n;
    npool = n + extra;
    nextra_used = 0;
    pool = (dnode *)malloc(npool * sizeof(dnode));
    present = (uint8_t *)calloc(npool, 1);
    xs = (xent *)malloc((extra + 1) * sizeof(xent));
    gone = (uint32_t *)malloc((2 * extra + 64) * sizeof(uint32_t));
    nxs = 0;
    ngone = 0;
    mcount = 0;
    if (!pool || !present || !xs || !gone) { return 0; }
    return 1;
}
static int caches_alloc(void)
{
    ht = (int8_t *)calloc(npool, 1);
    szc = (uint32_t *)calloc(npool, sizeof(uint32_t));
    vis = (uint8_t *)calloc(npool, 1);
    vis_epoch = 0;
#ifdef VF_TREE_RBT
    bhc = (int8_t *)calloc(npool, 1);
    if (!bhc) { return 0; }
#endif
    return ht && szc && vis;
}
static void all_free(void)
{
    free(pool); pool = NULL;
    free(present); present = NULL;
    free(xs); xs = NULL;
    free(gone); gone = NULL;
    free(ht); ht = NULL;
    free(szc); szc = NULL;
    free(vis); vis = NULL;
#ifdef VF_TREE_RBT
    free(bhc); bhc = NULL;
#endif
}

#ifndef VF_TREE_RBT
/* ============================================================ AVL: sparse shapes */
static size_t fsz[48], ssz[48];
static uint8_t *plan_depth; /* designed depth (root 0) of rank i */
static uint64_t dirmask;    /* bit d: at depth d the deep / spine child is the right one */

static void shape_fib(size_t lo, int h, int d)
{
    while (h > 0)
    {
        /* deep child FIB(h-1), shallow child FIB(h-2); recurse into the shallow one, iterate into the deep one */
        size_t const a = fsz[h - 1], b = h > 1 ? fsz[h - 2] : 0;
        if ((dirmask >> d) & 1)
        {
            plan_depth[lo + b] = (uint8_t)d;
            if (h > 1) { shape_fib(lo, h - 2, d + 1); }
            lo = lo + b + 1;
        }
        else
        {
            plan_depth[lo + a] = (uint8_t)d;
            if (h > 1) { shape_fib(lo + a + 1, h - 2, d + 1); }
        }
        --h;
        ++d;
    }
}
static size_t spine_end; /* rank of the last spine node */
static void shape_spine(size_t lo, int h, int d)
{
    for (; h > 1; --h, ++d)
    {
        size_t const f = fsz[h - 1];
        if ((dirmask >> d) & 1)
        {
            shape_fib(lo, h - 1, d + 1);
            plan_depth[lo + f] = (uint8_t)d;
            lo += f + 1;
        }
        else
        {
            size_t const s = ssz[h - 1];
            plan_depth[lo + s] = (uint8_t)d;
            shape_fib(lo + s + 1, h - 1, d + 1);
        }
    }
    plan_depth[lo] = (uint8_t)d;
    spine_end = lo;
}

static void tree_case(uint64_t c, vf_rng *r)
{
    troot root;
    int const kind = (c & 1) ? 1 : 0; /* 0 FIB, 1 SPINE: both in every pair of cases */
    int L, nops, dm;
    size_t n;
    uint32_t *order;
    size_t count[48] = {0}, start[48];
    fullres w;
    double t0 = vf_now(), t1, t2;
    fsz[0] = 0;
    fsz[1] = 1;
    for (int h = 2; h < 48; ++h) { fsz[h] = fsz[h - 1] + fsz[h - 2] + 1; }
    ssz[1] = 1;
    for (int h = 2; h < 48; ++h) { ssz[h] = fsz[h - 1] + 1 + ssz[h - 1]; }
    if (!vf.tier) { L = 34; nops = 400; full_every = 200; }
    else
    {
        /* thorough: mostly 35 levels (24 157 816 nodes); two cases in eight - one per worker - 36 levels (39 088 168 nodes, 1.5 GB; packed
           layout only); one in eight FIB(33), the smallest tree above 32 levels (9 227 464 nodes) */
        L = ((c % 8 == 2 || c % 8 == 7) && VF_PACKED) ? 36 : (c % 8 == 4) ? 33 : 35;
        nops = 1500;
        full_every = 250;
    }
    if (getenv("VF_DEEP_L")) { L = atoi(getenv("VF_DEEP_L")); }
    if (getenv("VF_DEEP_OPS")) { nops = atoi(getenv("VF_DEEP_OPS")); }
    if (kind) { --L; } /* SPINE(L-1) has as many nodes as FIB(L) */
    n = kind ? ssz[L] : fsz[L];
    dm = (int)vf_below(r, 5);
    dirmask = dm == 0 ? 0 : dm == 1 ? ~(uint64_t)0 : dm == 2 ? 0xAAAAAAAAAAAAAAAAULL : dm == 3 ? 0x5555555555555555ULL : vf_u64(r);
    /* the direction at the root level is planned, not drawn: a turn that falls out of a 32-entry record is the ROOT's, and both mirror
       images of both kinds must occur (quick: FIB with the deep side right of the root, SPINE with the spine left of it) */
    dirmask = (dirmask & ~(uint64_t)1) | (uint64_t)((c ^ (c >> 1) ^ 1) & 1); /* FIB right, SPINE left, FIB left, SPINE right, ... */
    cmp_style = (int)vf_below(r, 3);
    broken = 0;
    n_ops = 0;
    max_ins_depth = max_rem_depth = 0;
    vf_log("%s(%d): %zu nodes, direction mask %#" PRIx64 " (bit d set: deep side right at depth d), comparator style %d, layout %s", kind ? "SPINE" : "FIB", L, n, (uint64_t)(dirmask & ((1ULL << L) - 1)), cmp_style,
           VF_PACKED ? "packed" : "unpacked");
    if (!pool_alloc(n, (size_t)nops + 64)) { fprintf(stderr, "h_tree_deep: cannot allocate %zu nodes\n", n); exit(2); }
    plan_depth = (uint8_t *)malloc(n);
    order = (uint32_t *)malloc(n * sizeof(uint32_t));
    if (!plan_depth || !order) { fprintf(stderr, "h_tree_deep: cannot allocate the plan for %zu nodes\n", n); exit(2); }
    if (kind) { shape_spine(0, L, 0); }
    else { shape_fib(0, L, 0); }
    for (size_t i = 0; i < n; ++i) { ++count[plan_depth[i]]; }
    start[0] = 0;
    for (int d = 1; d < 48; ++d) { start[d] = start[d - 1] + count[d - 1]; }
    for (size_t i = 0; i < n; ++i) { order[start[plan_depth[i]]++] = (uint32_t)i; }
    memset(pool, 0xEE, n * sizeof(dnode));
    for (size_t i = 0; i < n; ++i) { pool[i].key = (int32_t)(i * KS + KMID); }
    /* breadth-first build through the library */
    T_(root)(&root);
    opname = "build";
    {
        size_t i = 0;
        uint64_t dups = 0;
        for (int d = 0; d < L; ++d)
        {
            vf_log("build: level %d, %zu nodes, left to right through " TN "_insert", d + 1, count[d]);
            for (size_t e = i + count[d]; i < e; ++i)
            {
                if (T_(insert)(&root, &pool[order[i]].n, cmp_node)) { ++dups; }
            }
        }
        if (dups) { DFAIL("new-key-reported-as-duplicate", "%" PRIu64 " inserts of absent keys returned a node", dups); }
    }
    free(order);
    memset(present, 1, n);
    mcount = n;
    t1 = vf_now();
    if (!caches_alloc()) { fprintf(stderr, "h_tree_deep: cannot allocate the caches for %zu nodes\n", n); exit(2); }
    vf_log("full walk of the built tree");
    w = full_walk(&root, plan_depth);
    free(plan_depth);
    plan_depth = NULL;
    t2 = vf_now();
    ++vf.evals;
    VF_COUNT("deep-build-judged");
    VF_ADD("deep-build-inserts", n);
    VF_MAX("deep-height-seen", (double)w.height);
    if (w.ok)
    {
        if (w.height > 32) { VF_COUNT("deep-tree-height-above-32"); }
        if (w.height > 34) { VF_COUNT("deep-tree-height-above-34"); }
        if (w.at_designed_depth == n) { VF_COUNT("deep-built-shape-as-designed"); }
        vf_distinct(vf_hash64(vf_hash64(0xDEE9, (uint64_t)L * 2 + (uint64_t)kind), dirmask & ((1ULL << L) - 1)));
        run_ops(&root, r, nops, vf.tier ? 6 : 3, kind ? (int64_t)spine_end : -1);
        if (!broken) { vf_log("final full walk"); maybe_full(&root, 1); }
    }
    if (vf_want_sample())
    {
        vf_sample("avl deep: %s(%d) built breadth-first through a_avl_insert: %zu nodes, height %d, %" PRIu64 " nodes at the designed depth; %" PRIu64 " judged operations (deepest insert at level %d, deepest removal at level %d); "
                  "build %.1fs, full walk %.2fs, operations %.1fs",
                  kind ? "SPINE" : "FIB", L, n, w.height, w.at_designed_depth, n_ops, max_ins_depth, max_rem_depth, t1 - t0, t2 - t1, vf_now() - t2);
    }
    all_free();
}
static uint64_t vf_ncases(int tier) { return getenv("VF_DEEP_CASES") ? strtoull(getenv("VF_DEEP_CASES"), NULL, 0) : tier ? 8 : 2; }

#else
/* ============================================================ red-black: sorted / random fills */
static void tree_case(uint64_t c, vf_rng *r)
{
    troot root;
    size_t const base = vf.tier ? ((size_t)1 << 23) : ((size_t)1 << 21);
    /* order: 0 ascending, 1 descending, 2 outside-in (min, max, min+1, max-1, ...), 3 random permutation */
    int const ord = (int)(c % 4);
    /* the random fill stays near 1.2*log2(n) levels whatever n is and costs a cache miss per level: 2^20 (quick) / 2^21 (thorough) keys */
    size_t n = (ord == 3 ? (vf.tier ? base / 4 : base / 2) : base) + (size_t)vf_below(r, base / 4);
    int nops = vf.tier ? 600 : 240;
    uint32_t *order;
    fullres w;
    double t0 = vf_now(), t1, t2;
    if (getenv("VF_DEEP_N")) { n = strtoull(getenv("VF_DEEP_N"), NULL, 0); }
    if (getenv("VF_DEEP_OPS")) { nops = atoi(getenv("VF_DEEP_OPS")); }
    full_every = vf.tier ? 10 : 6; /* 40 ms (2^21 nodes) / 0.2 s (2^23 nodes) per full walk */
    cmp_style = (int)vf_below(r, 3);
    broken = 0;
    n_ops = 0;
    max_ins_depth = max_rem_depth = 0;
    vf_log("fill of %zu keys in %s order, comparator style %d, layout %s", n, ord == 0 ? "ascending" : ord == 1 ? "descending" : ord == 2 ? "outside-in" : "random", cmp_style, VF_PACKED ? "packed" : "unpacked");
    if (!pool_alloc(n, (size_t)nops + 64)) { fprintf(stderr, "h_tree_deep: cannot allocate %zu nodes\n", n); exit(2); }
    order = (uint32_t *)malloc(n * sizeof(uint32_t));
    if (!order) { fprintf(stderr, "h_tree_deep: cannot allocate the plan for %zu nodes\n", n); exit(2); }
    for (size_t i = 0; i < n; ++i)
    {
        order[i] = ord == 0 ? (uint32_t)i : ord == 1 ? (uint32_t)(n - 1 - i) : ord == 2 ? (uint32_t)((i & 1) ? n - 1 - i / 2 : i / 2) : (uint32_t)i;
    }
    if (ord == 3)
    {
        for (size_t i = n - 1; i > 0; --i)
        {
            size_t j = (size_t)vf_below(r, i + 1);
            uint32_t tmp = order[i];
            order[i] = order[j];
            order[j] = tmp;
        }
    }
    memset(pool, 0xEE, n * sizeof(dnode));
    for (size_t i = 0; i < n; ++i) { pool[i].key = (int32_t)(i * KS + KMID); }
    T_(root)(&root);
    opname = "build";
    {
        uint64_t dups = 0;
        int const lowlevel = (int)(c / 4 % 2); /* every second group of four links by hand + a_rbt_insert_adjust */
        vf_log("build: %zu inserts through %s", n, lowlevel ? "manual link + " TN "_insert_adjust" : TN "_insert");
        for (size_t i = 0; i < n; ++i)
        {
            if (lowlevel ? insert_lowlevel(&root, &pool[order[i]]) : T_(insert)(&root, &pool[order[i]].n, cmp_node)) { ++dups; }
        }
        if (dups) { DFAIL("new-key-reported-as-duplicate", "%" PRIu64 " inserts of absent keys returned a node", dups); }
    }
    free(order);
    memset(present, 1, n);
    mcount = n;
    t1 = vf_now();
    if (!caches_alloc()) { fprintf(stderr, "h_tree_deep: cannot allocate the caches for %zu nodes\n", n); exit(2); }
    vf_log("full walk of the built tree");
    w = full_walk(&root, NULL);
    t2 = vf_now();
    ++vf.evals;
    VF_COUNT("deep-build-judged");
    VF_ADD("deep-build-inserts", n);
    VF_MAX("deep-height-seen", (double)w.height);
    if (w.ok)
    {
        if (w.height > 32) { VF_COUNT("deep-tree-height-above-32"); }
        if (w.height > 34) { VF_COUNT("deep-tree-height-above-34"); }
        vf_distinct(vf_hash64(vf_hash64(0xDEE9, (uint64_t)n), (uint64_t)ord));
        run_ops(&root, r, nops, vf.tier ? 6 : 3, -1);
        if (!broken) { vf_log("final full walk"); maybe_full(&root, 1); }
    }
    if (vf_want_sample())
    {
        vf_sample("rbt deep: %zu keys inserted in %s order: height %d; %" PRIu64 " judged operations (deepest insert at level %d, deepest removal at level %d), full walk every %d; build %.1fs, full walk %.2fs, operations %.1fs",
                  n, ord == 0 ? "ascending" : ord == 1 ? "descending" : ord == 2 ? "outside-in" : "random", w.height, n_ops, max_ins_depth, max_rem_depth, full_every, t1 - t0, t2 - t1, vf_now() - t2);
    }
    all_free();
}
static uint64_t vf_ncases(int tier) { return getenv("VF_DEEP_CASES") ? strtoull(getenv("VF_DEEP_CASES"), NULL, 0) : tier ? 12 : 4; }
#endif

static void vf_case(uint64_t c, vf_rng *r)
{
    tree_case(c, r);
}
