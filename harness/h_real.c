/* C11 - real special functions, norms, coordinate conversions, reductions and array helpers.
 * Compiled once per build configuration (the 7 real A_HAVE_* switches, A_SIZE_REAL 4/8).
 *
 *   |r~ - r| <= K * eps * |r| * max(1, kappa) + one subnormal ulp,   K = 8
 * r = libquadmath value at the exactly converted argument(s), kappa = relative condition number measured
 * by finite differences in quad.  Both bindings are judged in every build: the header macro (libm when the
 * switch is on, else the library body) and the exported symbol (always the library body; see h_real_ext.c).
 */
#define VF_PROP "C11"
#define VF_HAVE_INIT
#include "vf_common.h"
#include "a/math.h"
#include <quadmath.h>
#include <float.h>

typedef __float128 q_t;
a_real vfx_asinh(a_real x);
a_real vfx_acosh(a_real x);
a_real vfx_atanh(a_real x);
a_real vfx_expm1(a_real x);
a_real vfx_log1p(a_real x);
a_real vfx_atan2(a_real y, a_real x);

#if A_REAL_TYPE + 0 == A_REAL_SINGLE
#define EPSQ ((q_t)FLT_EPSILON)
#define SUBULP ((q_t)FLT_TRUE_MIN)
#define RMAX ((q_t)FLT_MAX)
#define RMIN ((q_t)FLT_MIN)
#define TINY (-35.0)
#define HUGE_ (35.0)
#define LOGMAX 88.0
#else
#define EPSQ ((q_t)DBL_EPSILON)
#define SUBULP ((q_t)DBL_TRUE_MIN)
#define RMAX ((q_t)DBL_MAX)
#define RMIN ((q_t)DBL_MIN)
#define TINY (-300.0)
#define HUGE_ (300.0)
#define LOGMAX 709.0
#endif
#define KB 8.0

static int sw(char const *name)
{
    /* is the switch on in this build? */
#define CHK(N)                                   \
    if (!strcmp(name, #N))                       \
    {                                            \
        return (defined_##N);                    \
    }
#if defined(A_HAVE_ASINH) && (A_HAVE_ASINH + 0 > 0)
    enum { defined_ASINH = 1 };
#else
    enum { defined_ASINH = 0 };
#endif
#if defined(A_HAVE_ACOSH) && (A_HAVE_ACOSH + 0 > 0)
    enum { defined_ACOSH = 1 };
#else
    enum { defined_ACOSH = 0 };
#endif
#if defined(A_HAVE_ATANH) && (A_HAVE_ATANH + 0 > 0)
    enum { defined_ATANH = 1 };
#else
    enum { defined_ATANH = 0 };
#endif
#if defined(A_HAVE_EXPM1) && (A_HAVE_EXPM1 + 0 > 0)
    enum { defined_EXPM1 = 1 };
#else
    enum { defined_EXPM1 = 0 };
#endif
#if defined(A_HAVE_LOG1P) && (A_HAVE_LOG1P + 0 > 0)
    enum { defined_LOG1P = 1 };
#else
    enum { defined_LOG1P = 0 };
#endif
#if defined(A_HAVE_ATAN2) && (A_HAVE_ATAN2 + 0 > 0)
    enum { defined_ATAN2 = 1 };
#else
    enum { defined_ATAN2 = 0 };
#endif
#if defined(A_HAVE_HYPOT) && (A_HAVE_HYPOT + 0 > 0)
    enum { defined_HYPOT = 1 };
#else
    enum { defined_HYPOT = 0 };
#endif
    CHK(ASINH) CHK(ACOSH) CHK(ATANH) CHK(EXPM1) CHK(LOG1P) CHK(ATAN2) CHK(HYPOT)
    return 0;
}

static uint64_t n_skip_cond, n_skip_range;

static void cell(char const *fn, int cls, q_t mag)
{
    int dec = mag == 0 ? -999 : (int)floorq(log10q(fabsq(mag)));
    vf_distinct(vf_hash64(vf_hash64(vf_hash_str(fn), (uint64_t)cls), (uint64_t)(dec + 2000)));
}

/* returns 1 if judged */
static int judge(char const *fn, char const *binding, q_t r, q_t kappa, a_real got, char const *d)
{
    q_t ar = fabsq(r), err, unit, ratio;
    char name[80];
    if (!(kappa <= 1e6Q)) { ++n_skip_cond; return 0; }
    if (ar > RMAX) { ++n_skip_range; return 0; }
    err = fabsq((q_t)got - r);
    unit = EPSQ * ar * (kappa > 1 ? kappa : 1);
    if (!(err == err)) { ratio = 1e30Q; }
    else if (err <= SUBULP) { ratio = 0; }
    else if (unit == 0) { ratio = 1e30Q; }
    else { ratio = (err - SUBULP) / unit; }
    ++vf.evals;
    snprintf(name, sizeof(name), "ratio/%s/%s", fn, binding);
    {
        double rd = (double)ratio;
        vf_counter *c = &vf.ctr[vf_counter_id(name)];
        c->is_max = 1;
        ++c->n;
        if (rd > c->max) { c->max = rd; snprintf(c->arg, sizeof(c->arg), "%s", d); }
    }
    if (ratio > (q_t)KB)
    {
        char key[128];
        snprintf(key, sizeof(key), "real/%s/%s/value", fn, binding);
        vf_viol(key, "%s(%s) [%s] = %.17g, expected %.17g: error %.3g = %.3g x (eps*|r|*max(1,kappa)) (kappa %.3g, bound %.0f) [config %s]", fn, d, binding, (double)got, (double)r,
                (double)err, (double)ratio, (double)kappa, KB, vf.config);
    }
    return 1;
}

static q_t kap1(q_t (*f)(q_t), q_t x, q_t r)
{
    q_t const h = 0x1p-30Q;
    q_t d = fabsq(f(x * (1 + h)) - r);
    if (r == 0) { return d == 0 ? 1 : 1e30Q; }
    return d / (h * fabsq(r));
}

static double logu(vf_rng *r, double lo, double hi) { return pow(10.0, vf_uniform(r, lo, hi)); }

#define NPTS 2000
enum { C_ASINH, C_ACOSH, C_ATANH, C_EXPM1, C_LOG1P, C_ATAN2, C_NORM23, C_NORMN, C_POLAR, C_SPHERE, C_DEGRAD, C_RSQRT, C_REDUCE, C_ARRAYS, C_N };
static char const *const cnames[] = {"asinh", "acosh", "atanh", "expm1", "log1p", "atan2", "norm2/norm3", "norm/norm_", "cart2pol/pol2cart", "cart2sph/sph2cart", "rad2deg/deg2rad", "rsqrt", "reductions", "array-helpers"};
static uint64_t chunks;
static void vf_init(void)
{
    chunks = vf.tier ? (strncmp(vf.config, "all-", 4) == 0 ? 160 : 32) : 8;
    if (getenv("VF_C11_CHUNKS")) { chunks = strtoull(getenv("VF_C11_CHUNKS"), NULL, 0); }
}
static uint64_t vf_ncases(int tier) { (void)tier; return (uint64_t)C_N * chunks; }

/* one-argument functions: macro binding + exported body */
static void unary(vf_rng *r, char const *fn, char const *swname, a_real (*mac)(a_real), a_real (*ext)(a_real), q_t (*ref)(q_t), int dom)
{
    char d[64], c1[64], c2[64];
    char const *b1 = sw(swname) ? "macro-libm" : "macro-fallback";
    snprintf(c1, sizeof(c1), "judged/%s/macro", fn);
    snprintf(c2, sizeof(c2), "judged/%s/exported", fn);
    for (int i = 0; i < NPTS; ++i)
    {
        double v;
        a_real x;
        q_t ref_r, k;
        int mode = (int)vf_below(r, 8);
        switch (dom)
        {
        case 0: /* all reals: asinh, expm1 (bounded above) */
            v = vf_sign(r) * (mode < 2 ? logu(r, TINY, -8) : mode < 5 ? logu(r, -8, 2) : logu(r, 2, HUGE_));
            if (!strcmp(fn, "expm1") && v > LOGMAX) { v = vf_uniform(r, 0, LOGMAX); }
            break;
        case 1: /* x >= 1: acosh */
            v = mode < 3 ? 1 + logu(r, -15, 0) : mode < 6 ? logu(r, 0, 8) : logu(r, 8, HUGE_);
            break;
        case 2: /* |x| < 1: atanh */
            v = vf_sign(r) * (mode < 2 ? logu(r, TINY, -8) : mode < 5 ? logu(r, -8, 0) : 1 - logu(r, -15, 0));
            break;
        default: /* x > -1: log1p */
            v = mode < 2 ? vf_sign(r) * logu(r, TINY, -8) : mode < 4 ? vf_sign(r) * logu(r, -8, -0.01) : mode < 6 ? logu(r, 0, HUGE_) : -1 + logu(r, -15, 0);
            break;
        }
        x = (a_real)v;
        if (mode == 7 && dom != 2 && vf_chance(r, 1, 2))
        {
            /* the top of the range: REAL_MAX * [1/4, 1] (results such as asinh(MAX) ~ 710 are perfectly representable) */
            v = (double)RMAX * vf_uniform(r, 0.25, 1.0) * (dom == 0 ? vf_sign(r) : 1);
            if (!strcmp(fn, "expm1")) { v = vf_uniform(r, LOGMAX - 2, LOGMAX); }
        }
        x = (a_real)v;
        if (!isfinite((double)x)) { x = (a_real)RMAX; }
        if (dom == 1 && !(x >= 1)) { continue; }
        if (dom == 2 && !(x > -1 && x < 1)) { continue; }
        if (dom == 3 && !(x > -1)) { continue; }
        if (!isfinite((double)x)) { continue; }
        ref_r = ref((q_t)x);
        k = kap1(ref, (q_t)x, ref_r);
        snprintf(d, sizeof(d), "x=%a", (double)x);
        if (i < 2) { vf_log("%s %s", fn, d); }
        if (judge(fn, b1, ref_r, k, mac(x), d)) { vf_count_dyn(c1, 1); cell(fn, x < 0, (q_t)x); }
        if (judge(fn, "exported", ref_r, k, ext(x), d)) { vf_count_dyn(c2, 1); }
        if (vf_want_sample() && i == 5)
        {
            vf_sample("a_real_%s(%a): header binding (%s) %.17g, exported body %.17g, quad %.20Lg, kappa %.3g [config %s]", fn, (double)x, b1, (double)mac(x), (double)ext(x), (long double)ref_r, (double)k, vf.config);
        }
    }
}
static a_real m_asinh(a_real x) { return a_real_asinh(x); }
static a_real m_acosh(a_real x) { return a_real_acosh(x); }
static a_real m_atanh(a_real x) { return a_real_atanh(x); }
static a_real m_expm1(a_real x) { return a_real_expm1(x); }
static a_real m_log1p(a_real x) { return a_real_log1p(x); }

static void atan2_case(vf_rng *r)
{
    char d[96];
    char const *b1 = sw("ATAN2") ? "macro-libm" : "macro-fallback";
    for (int i = 0; i < NPTS; ++i)
    {
        double mag = logu(r, vf_chance(r, 1, 2) ? -3 : TINY, vf_chance(r, 1, 2) ? 3 : HUGE_), ph = vf_uniform(r, -M_PI, M_PI);
        a_real y, x;
        q_t ref_r, k, h = 0x1p-30Q;
        int mode = (int)vf_below(r, 10), cls;
        switch (mode)
        {
        case 0: x = 0; y = (a_real)(mag * vf_sign(r)); break;          /* exact (0, +-y) */
        case 1: y = 0; x = (a_real)(mag * vf_sign(r)); break;           /* exact (+-x, +0): on the negative axis the value for y = +0 is +pi */
        case 2: y = (a_real)(mag * vf_sign(r)); x = (a_real)((double)y * logu(r, -14, 0) * vf_sign(r)); break; /* near the y axis */
        case 3: x = (a_real)(mag * vf_sign(r)); y = (a_real)((double)x * logu(r, -14, 0) * vf_sign(r)); break; /* near the x axis */
        case 4: x = (a_real)(mag * vf_sign(r)); y = (a_real)(logu(r, TINY, HUGE_) * vf_sign(r)); break;     /* very different magnitudes */
        default: x = (a_real)(mag * cos(ph)); y = (a_real)(mag * sin(ph)); break;
        }
        if (x == 0 && y == 0) { continue; }
        if (y == 0 && x < 0 && signbit((double)y)) { continue; } /* y = -0.0 on the cut: the sign-of-zero convention is not judged */
        if (!isfinite((double)x) || !isfinite((double)y)) { continue; }
        ref_r = atan2q((q_t)y, (q_t)x);
        {
            q_t d1 = fabsq(atan2q((q_t)y * (1 + h), (q_t)x) - ref_r), d2 = fabsq(atan2q((q_t)y, (q_t)x * (1 + h)) - ref_r);
            k = ref_r == 0 ? 1 : (d1 + d2) / (h * fabsq(ref_r));
        }
        cls = (y == 0 ? 0 : y > 0 ? 1 : 2) * 3 + (x == 0 ? 0 : x > 0 ? 1 : 2);
        snprintf(d, sizeof(d), "y=%a x=%a", (double)y, (double)x);
        if (i < 2) { vf_log("atan2 %s", d); }
        if (judge("atan2", b1, ref_r, k, a_real_atan2(y, x), d)) { VF_COUNT("judged/atan2/macro"); cell("atan2", cls, hypotq((q_t)x, (q_t)y)); }
        if (judge("atan2", "exported", ref_r, k, vfx_atan2(y, x), d)) { VF_COUNT("judged/atan2/exported"); }
        if (x == 0) { VF_COUNT("judged/atan2/exact-y-axis"); }
    }
}

/* Regime 5: every component of one point lies in a narrow band (factor 0.85..1.18, or 1 +- 1e-3) around a common centre c that is
   itself within a few octaves of sqrt(MAX / n) or sqrt(MIN): there the squares are still (already) representable while their sum -
   or a shortcut guarded by sqrt(MAX) where sqrt(MAX / 2) is needed - is not (seeded change C11-I: `y < 1e154` guards
   sqrt(x*x + y*y), which is inf for both components in (8.93e153, 1e154)).  Independent log-uniform components meet such a band
   about once in 1e8 points. */
static double g_band;
static void band_centre(vf_rng *r, size_t n)
{
    g_band = vf_chance(r, 1, 2) ? sqrt((double)RMAX / (double)(n ? n : 1)) * exp2(vf_uniform(r, -1.5, 0.6)) : sqrt((double)RMIN) * exp2(vf_uniform(r, -0.6, 1.5));
    VF_COUNT("components-around-sqrt-of-range-limits");
}
static a_real comp(vf_rng *r, int regime)
{
    /* regime 0 moderate, 1 near the top of the range, 2 near the bottom (normal) */
    double v;
    if (regime == 5) { return (a_real)(g_band * (vf_chance(r, 1, 2) ? 1 + vf_uniform(r, -1e-3, 1e-3) : vf_uniform(r, 0.85, 1.18)) * vf_sign(r)); }
    switch (regime)
    {
    case 1: v = (double)RMAX / 2 * vf_uniform(r, 0.05, 0.7); break;
    case 2: v = (double)RMIN * vf_uniform(r, 1, 64); break;
    case 4: v = (double)SUBULP * (double)(1 + vf_below(r, 20000)); break; /* deep subnormals: the true norm is still representable */
    default: v = logu(r, -6, 6); break;
    }
    if (vf_chance(r, 1, 8)) { v = 0; }
    return (a_real)(v * vf_sign(r));
}

static void norm23_case(vf_rng *r)
{
    char d[128];
    for (int i = 0; i < NPTS; ++i)
    {
        int regime = (int)vf_below(r, 6);
        a_real x, y, z;
        q_t r2, r3;
        if (regime == 5) { band_centre(r, (size_t)(2 + vf_below(r, 2))); }
        x = comp(r, regime); y = comp(r, regime >= 4 || vf_chance(r, 3, 4) ? regime : 0); z = comp(r, regime >= 4 || vf_chance(r, 3, 4) ? regime : 0);
        if (regime == 3) { x = (a_real)(vf_sign(r) * logu(r, TINY, HUGE_)); y = (a_real)(vf_sign(r) * logu(r, TINY, HUGE_)); z = (a_real)(vf_sign(r) * logu(r, TINY, HUGE_)); }
        r2 = sqrtq((q_t)x * x + (q_t)y * y);
        r3 = sqrtq((q_t)x * x + (q_t)y * y + (q_t)z * z);
        snprintf(d, sizeof(d), "x=%a y=%a z=%a", (double)x, (double)y, (double)z);
        if (i < 2) { vf_log("norm2/3 %s", d); }
        if (judge("norm2", "value", r2, 1, a_real_norm2(x, y), d)) { VF_COUNT("judged/norm2"); cell("norm2", regime, r2); }
        if (judge("hypot", sw("HYPOT") ? "macro-libm" : "macro-fallback", r2, 1, a_real_hypot(x, y), d)) { VF_COUNT("judged/hypot"); }
        if (judge("norm3", "value", r3, 1, a_real_norm3(x, y, z), d)) { VF_COUNT("judged/norm3"); cell("norm3", regime, r3); }
        /* representable result => finite and non-zero */
        if (r2 >= SUBULP && r2 <= RMAX)
        {
            a_real g = a_real_norm2(x, y);
            VF_COUNT("norm-no-spurious-overflow-underflow");
            if (!isfinite((double)g) || g == 0) { vf_viol("real/norm2/spurious-overflow-or-underflow", "norm2(%s) = %g although the true value %.6Lg is representable", d, (double)g, (long double)r2); }
        }
        if (r3 >= SUBULP && r3 <= RMAX)
        {
            a_real g = a_real_norm3(x, y, z);
            if (!isfinite((double)g) || g == 0) { vf_viol("real/norm3/spurious-overflow-or-underflow", "norm3(%s) = %g although the true value %.6Lg is representable", d, (double)g, (long double)r3); }
        }
    }
}

/* lengths: mostly 0..33; one time in eight a length around a power of two above 1000 or a large odd one (blocked or pairwise
   loops with a remainder: seeded change C11-E drops the last element of odd halves from n = 1025 on) */
static size_t draw_n(vf_rng *r)
{
    static size_t const big[] = {1023, 1024, 1025, 2047, 2048, 2049, 2050, 3001, 4095, 4096, 4097, 8191, 10001, 16385};
    if (!vf_chance(r, 1, 8)) { return (size_t)vf_below(r, 34); }
    if (vf_chance(r, 1, 3)) { return 1024 + (size_t)vf_below(r, 19000); }
    VF_COUNT("large-array-lengths");
    return big[vf_below(r, sizeof big / sizeof big[0])];
}
static void normn_case(vf_rng *r)
{
    char d[96];
    /* the judged calls below are PRECEDED by calls whose vector holds an infinity (legal; the norm is +inf), at each position: what such a call leaves behind in the
       calling thread (seeded change C11-O: flush-to-zero set inside the routine and not restored on the early return) meets the subnormal regimes that follow; the
       control state itself is compared around the case by vf_common.h */
    {
        a_real v[5] = {(a_real)3, (a_real)-4, (a_real)0.5, (a_real)2, (a_real)-1};
        for (int k = 0; k < 5; ++k)
        {
            a_real const keep = v[k];
            a_real g, g2;
            v[k] = k & 1 ? -(a_real)INFINITY : (a_real)INFINITY;
            g = a_real_norm(5, v);
            g2 = a_real_norm_(3, v, 2);
            ++vf.evals;
            VF_COUNT("norm-of-a-vector-with-an-infinite-component");
            /* the VALUE for a non-finite argument is outside C11 ("for every finite argument"): recorded, not judged */
            if (!(g == (a_real)INFINITY) || !((k % 2 == 0) ? g2 == (a_real)INFINITY : g2 == g2 && g2 < (a_real)INFINITY)) { VF_COUNT("norm-infinite-component-value-unexpected"); }
            v[k] = keep;
        }
    }
    for (int i = 0; i < NPTS / 4; ++i)
    {
        size_t n = draw_n(r), c = 1 + (size_t)vf_below(r, 4);
        int regime = (int)vf_below(r, 4) == 3 ? 4 + (int)vf_below(r, 2) : (int)vf_below(r, 3);
        a_real *p = (a_real *)malloc((n * c ? n * c : 1) * sizeof(a_real)); /* exact size: a stride error is an ASan report */
        a_real *q = (a_real *)malloc((n ? n : 1) * sizeof(a_real));
        q_t s = 0, ref_r;
        for (size_t j = 0; j < n * c; ++j) { p[j] = (a_real)(12345.0 + (double)j); }
        if (regime == 5) { band_centre(r, n); }
        for (size_t j = 0; j < n; ++j)
        {
            a_real v = comp(r, regime);
            q[j] = v;
            p[j * c] = v;
            s += (q_t)v * v;
        }
        ref_r = sqrtq(s);
        snprintf(d, sizeof(d), "n=%zu stride=%zu regime=%d", n, c, regime);
        if (i < 2) { vf_log("norm %s", d); }
        if (judge("norm", "value", ref_r, 1 + (q_t)n / 4, a_real_norm(n, q), d)) { VF_COUNT("judged/norm"); cell("norm", regime * 40 + (int)n, ref_r); }
        if (judge("norm_", "value", ref_r, 1 + (q_t)n / 4, a_real_norm_(n, p, c), d)) { VF_COUNT("judged/norm_"); }
        if (ref_r >= SUBULP && ref_r <= RMAX)
        {
            a_real g = a_real_norm(n, q);
            VF_COUNT("norm-no-spurious-overflow-underflow");
            if (!isfinite((double)g) || g == 0) { vf_viol("real/norm/spurious-overflow-or-underflow", "norm(%s) = %g although the true value %.6Lg is representable", d, (double)g, (long double)ref_r); }
        }
        free(p);
        free(q);
    }
}

/* the origin and the z axis: the angles are not determined mathematically, but every C convention gives FINITE angles there
   (atan2(+-0, +0) = +-0), so the conversion must return rho == |z| (0 at the origin) exactly, finite angles, alpha = +-pi/2 on
   the z axis, and the way back must reproduce the point (seeded change C11-F: atan(z / r) in place of atan2(z, r) gives
   alpha = NaN at the origin only). */
static void axis_points_case(vf_rng *r)
{
    a_real const zs[] = {(a_real)0.0, 1, -1, (a_real)3.5, -A_REAL_MIN * 4, A_REAL_MAX / 8, (a_real)-0.0};
    char d[96];
    for (unsigned k = 0; k < sizeof zs / sizeof zs[0]; ++k)
    {
        a_real const z = zs[k], x0 = vf_chance(r, 1, 2) ? (a_real)0.0 : (a_real)-0.0, y0 = vf_chance(r, 1, 2) ? (a_real)0.0 : (a_real)-0.0;
        a_real rho = 7, th = 7, alp = 7, bx = 7, by = 7, bz = 7;
        snprintf(d, sizeof d, "x=%a y=%a z=%a", (double)x0, (double)y0, (double)z);
        vf_log("cart2sph on the z axis / at the origin %s", d);
        a_real_cart2sph(x0, y0, z, &rho, &th, &alp);
        ++vf.evals;
        VF_COUNT("judged/cart2sph-origin-and-z-axis");
        if (!(rho == (z < 0 ? -z : z)) || !(th == th) || !(alp == alp) || !(th >= -4 && th <= 4) || !(alp >= -2 && alp <= 2))
        {
            vf_viol("real/cart2sph/origin-or-z-axis", "%s: cart2sph gives rho=%a theta=%a alpha=%a (rho must be |z| exactly, both angles finite) [config %s]", d, (double)rho, (double)th, (double)alp, vf.config);
            continue;
        }
        if (z != 0 && fabsq(fabsq((q_t)alp) - M_PI_2q) > 4 * EPSQ * M_PI_2q)
        {
            vf_viol("real/cart2sph/origin-or-z-axis", "%s: alpha=%a, expected +-pi/2 on the z axis [config %s]", d, (double)alp, vf.config);
            continue;
        }
        a_real_sph2cart(rho, th, alp, &bx, &by, &bz);
        {
            q_t const az = fabsq((q_t)z), e = fabsq((q_t)bx) + fabsq((q_t)by) + fabsq((q_t)bz - (q_t)z);
            if (!(e <= 8 * EPSQ * az)) /* at the origin: exactly (0,0,0) */
            {
                vf_viol("real/sphere/round-trip-origin-or-z-axis", "%s -> (rho %a, theta %a, alpha %a) -> (%a, %a, %a) [config %s]", d, (double)rho, (double)th, (double)alp, (double)bx, (double)by, (double)bz, vf.config);
            }
        }
        if (z == 0)
        {
            a_real pr = 7, pt = 7, px = 7, py = 7;
            a_real_cart2pol(x0, y0, &pr, &pt);
            a_real_pol2cart(pr, pt, &px, &py);
            ++vf.evals;
            VF_COUNT("judged/cart2pol-origin");
            if (!(pr == 0) || !(pt == pt) || !(pt >= -4 && pt <= 4) || !(px == 0) || !(py == 0))
            {
                vf_viol("real/cart2pol/origin", "%s: cart2pol gives rho=%a theta=%a, back (%a, %a) [config %s]", d, (double)pr, (double)pt, (double)px, (double)py, vf.config);
            }
        }
    }
}

static void polar_case(vf_rng *r)
{
    char d[128];
    for (int i = 0; i < NPTS; ++i)
    {
        double mag = logu(r, vf_chance(r, 1, 2) ? -3 : TINY / 2, vf_chance(r, 1, 2) ? 3 : HUGE_ / 2), ph = vf_uniform(r, -3.1, 3.1);
        a_real x = (a_real)(mag * cos(ph)), y = (a_real)(mag * sin(ph)), rho, th, bx, by;
        q_t rr, tt, h = 0x1p-30Q, kt;
        if (vf_chance(r, 1, 10)) { x = 0; }
        if (vf_chance(r, 1, 10)) { y = 0; }
        if (vf_chance(r, 1, 12)) { band_centre(r, 2); x = comp(r, 5); y = comp(r, 5); }
        if (x == 0 && y == 0) { continue; } /* origin / z axis: axis_points_case */
        snprintf(d, sizeof(d), "x=%a y=%a", (double)x, (double)y);
        if (i < 2) { vf_log("cart2pol %s", d); }
        a_real_cart2pol(x, y, &rho, &th);
        rr = hypotq((q_t)x, (q_t)y);
        tt = atan2q((q_t)y, (q_t)x);
        kt = tt == 0 ? 1 : (fabsq(atan2q((q_t)y * (1 + h), (q_t)x) - tt) + fabsq(atan2q((q_t)y, (q_t)x * (1 + h)) - tt)) / (h * fabsq(tt));
        if (judge("cart2pol.rho", "value", rr, 1, rho, d)) { VF_COUNT("judged/cart2pol"); cell("cart2pol", (y < 0) * 2 + (x < 0), rr); }
        judge("cart2pol.theta", "value", tt, kt, th, d);
        /* pol2cart against quad at the (rho, theta) actually passed in */
        a_real_pol2cart(rho, th, &bx, &by);
        {
            q_t cx = (q_t)rho * cosq((q_t)th), cy = (q_t)rho * sinq((q_t)th);
            q_t kx = cx == 0 ? 1 : fabsq((q_t)th * (q_t)rho * sinq((q_t)th) / cx) + 1, ky = cy == 0 ? 1 : fabsq((q_t)th * (q_t)rho * cosq((q_t)th) / cy) + 1;
            if (judge("pol2cart.x", "value", cx, kx, bx, d)) { VF_COUNT("judged/pol2cart"); }
            judge("pol2cart.y", "value", cy, ky, by, d);
        }
        /* round trip: within a few eps of the radius */
        VF_COUNT("polar-round-trip");
        ++vf.evals;
        {
            q_t e = hypotq((q_t)bx - x, (q_t)by - y);
            double ratio = (double)(e / (EPSQ * rr * (1 + fabsq(tt))));
            VF_MAX("ratio/polar-round-trip", ratio);
            if (ratio > 4 * KB) { vf_viol("real/polar/round-trip", "%s -> (rho %a, theta %a) -> (%a, %a): error %.3g x eps*rho*(1+|theta|)", d, (double)rho, (double)th, (double)bx, (double)by, ratio); }
        }
    }
}

static void sphere_case(vf_rng *r)
{
    char d[160];
    axis_points_case(r);
    for (int i = 0; i < NPTS; ++i)
    {
        double mag = logu(r, vf_chance(r, 1, 2) ? -3 : TINY / 2, vf_chance(r, 1, 2) ? 3 : HUGE_ / 2), ph = vf_uniform(r, -3.1, 3.1), al = vf_uniform(r, -1.55, 1.55);
        a_real x = (a_real)(mag * cos(al) * cos(ph)), y = (a_real)(mag * cos(al) * sin(ph)), z = (a_real)(mag * sin(al)), rho, th, alp, bx, by, bz;
        q_t rr, r2, tt, aa, h = 0x1p-30Q, kt, ka;
        if (vf_chance(r, 1, 10)) { z = 0; }
        if (vf_chance(r, 1, 12)) { y = 0; }
        if (vf_chance(r, 1, 12)) { band_centre(r, (size_t)(2 + vf_below(r, 2))); x = comp(r, 5); y = comp(r, 5); z = vf_chance(r, 1, 4) ? z : comp(r, 5); }
        if (x == 0 && y == 0) { continue; } /* origin / z axis: axis_points_case */
        snprintf(d, sizeof(d), "x=%a y=%a z=%a", (double)x, (double)y, (double)z);
        if (i < 2) { vf_log("cart2sph %s", d); }
        a_real_cart2sph(x, y, z, &rho, &th, &alp);
        r2 = hypotq((q_t)x, (q_t)y);
        rr = hypotq(r2, (q_t)z);
        tt = atan2q((q_t)y, (q_t)x);
        aa = atan2q((q_t)z, r2);
        kt = tt == 0 ? 1 : (fabsq(atan2q((q_t)y * (1 + h), (q_t)x) - tt) + fabsq(atan2q((q_t)y, (q_t)x * (1 + h)) - tt)) / (h * fabsq(tt));
        ka = aa == 0 ? 1 : (fabsq(atan2q((q_t)z * (1 + h), r2) - aa) + 2 * fabsq(atan2q((q_t)z, r2 * (1 + h)) - aa)) / (h * fabsq(aa)) + 1;
        if (judge("cart2sph.rho", "value", rr, 2, rho, d)) { VF_COUNT("judged/cart2sph"); cell("cart2sph", (z < 0) * 4 + (y < 0) * 2 + (x < 0), rr); }
        judge("cart2sph.theta", "value", tt, kt, th, d);
        judge("cart2sph.alpha", "value", aa, ka, alp, d);
        /* two outputs the caller does not want pointed at ONE scratch cell (no parameter is restrict-qualified): the third output is judged as before.
           An implementation that parks an intermediate in an output cell and reads it back gives a different - and wrong - value here
           (seeded change C11-K: cart2sph as two successive polar conversions through *rho). Same bound as the plain call. */
        if (i % 4 == 0)
        {
            a_real u, o = 0;
            int const w = (i / 4) % 3;
            if (w == 0) { a_real_cart2sph(x, y, z, &u, &u, &o); judge("cart2sph.alpha", "two-other-outputs-share-a-cell", aa, ka, o, d); }
            else if (w == 1) { a_real_cart2sph(x, y, z, &u, &o, &u); judge("cart2sph.theta", "two-other-outputs-share-a-cell", tt, kt, o, d); }
            else { a_real_cart2sph(x, y, z, &o, &u, &u); judge("cart2sph.rho", "two-other-outputs-share-a-cell", rr, 2, o, d); }
            VF_COUNT("outputs-sharing-a-cell/cart2sph");
        }
        a_real_sph2cart(rho, th, alp, &bx, &by, &bz);
        if (i % 4 == 1)
        {
            a_real u, o = 0, want;
            int const w = (i / 4) % 3;
            if (w == 0) { a_real_sph2cart(rho, th, alp, &u, &u, &o); want = bz; }
            else if (w == 1) { a_real_sph2cart(rho, th, alp, &u, &o, &u); want = by; }
            else { a_real_sph2cart(rho, th, alp, &o, &u, &u); want = bx; }
            VF_COUNT("outputs-sharing-a-cell/sph2cart");
            /* the component from the plain call is itself judged below; the aliased call must agree with it to within the same bound */
            if (!(fabsq((q_t)o - (q_t)want) <= KB * EPSQ * rr * (1 + fabsq((q_t)th) + fabsq((q_t)alp))))
            {
                vf_viol("real/sph2cart/two-other-outputs-share-a-cell", "%s: sph2cart(%a,%a,%a) component %d = %a when the other two outputs share one cell, %a when they do not", d, (double)rho, (double)th,
                        (double)alp, 2 - w, (double)o, (double)want);
            }
        }
        VF_COUNT("judged/sph2cart");
        VF_COUNT("sphere-round-trip");
        ++vf.evals;
        {
            q_t cx = (q_t)rho * cosq((q_t)alp) * cosq((q_t)th), cy = (q_t)rho * cosq((q_t)alp) * sinq((q_t)th), cz = (q_t)rho * sinq((q_t)alp);
            q_t e = sqrtq(((q_t)bx - cx) * ((q_t)bx - cx) + ((q_t)by - cy) * ((q_t)by - cy) + ((q_t)bz - cz) * ((q_t)bz - cz));
            double ratio = (double)(e / (EPSQ * rr * (1 + fabsq((q_t)th) + fabsq((q_t)alp))));
            VF_MAX("ratio/sph2cart", ratio);
            if (ratio > KB) { vf_viol("real/sph2cart/value", "%s: sph2cart(%a,%a,%a) = (%a,%a,%a): error %.3g x eps*rho*(1+|theta|+|alpha|)", d, (double)rho, (double)th, (double)alp, (double)bx, (double)by, (double)bz, ratio); }
            e = sqrtq(((q_t)bx - x) * ((q_t)bx - x) + ((q_t)by - y) * ((q_t)by - y) + ((q_t)bz - z) * ((q_t)bz - z));
            ratio = (double)(e / (EPSQ * rr * (1 + fabsq(tt) + fabsq(aa))));
            VF_MAX("ratio/sphere-round-trip", ratio);
            if (ratio > 4 * KB) { vf_viol("real/sphere/round-trip", "%s: round trip error %.3g x eps*rho*(1+|theta|+|alpha|)", d, ratio); }
        }
    }
}

static void degrad_case(vf_rng *r)
{
    char d[64];
    for (int i = 0; i < NPTS; ++i)
    {
        a_real x = (a_real)(vf_sign(r) * logu(r, TINY, HUGE_ - 3));
        snprintf(d, sizeof(d), "x=%a", (double)x);
        if (judge("rad2deg", "value", (q_t)x * 180 / M_PIq, 1, a_real_rad2deg(x), d)) { VF_COUNT("judged/rad2deg"); cell("rad2deg", x < 0, (q_t)x); }
        if (judge("deg2rad", "value", (q_t)x * M_PIq / 180, 1, a_real_deg2rad(x), d)) { VF_COUNT("judged/deg2rad"); }
    }
}

static void rsqrt_case(vf_rng *r)
{
    char d[64];
#ifdef VF_LIB_GNU89
    /* a library compiled in a pre-C99 dialect takes the bit-trick arm of a_f32_rsqrt / a_f64_rsqrt (magic constant + two Newton steps, about 5e-6 relative by design);
       the reciprocal square roots are not among the helpers C11 enumerates, so that arm is counted and not judged */
    (void)r; (void)d;
    VF_COUNT("rsqrt-approximation-arm-of-pre-C99-builds-not-judged");
    return;
#endif
    for (int i = 0; i < NPTS; ++i)
    {
        double v = logu(r, -300, 300);
        float f = (float)logu(r, -37, 38);
        q_t e;
        snprintf(d, sizeof(d), "x=%a", v);
        VF_COUNT("judged/rsqrt");
        ++vf.evals;
        e = fabsq((q_t)a_f64_rsqrt(v) - 1 / sqrtq((q_t)v)) / ((q_t)DBL_EPSILON / sqrtq((q_t)v));
        VF_MAX("ratio/f64_rsqrt", (double)e);
        if (!(e <= 4)) { vf_viol("real/f64_rsqrt/value", "a_f64_rsqrt(%s) = %.17g: %.3g eps", d, a_f64_rsqrt(v), (double)e); }
        e = fabsq((q_t)a_f32_rsqrt(f) - 1 / sqrtq((q_t)f)) / ((q_t)FLT_EPSILON / sqrtq((q_t)f));
        VF_MAX("ratio/f32_rsqrt", (double)e);
        if (!(e <= 4)) { vf_viol("real/f32_rsqrt/value", "a_f32_rsqrt(%a) = %.9g: %.3g eps", (double)f, (double)a_f32_rsqrt(f), (double)e); }
        cell("rsqrt", 0, (q_t)v);
    }
}

/* sums, means, dot products against quad: |err| <= (n+2) * eps * sum|terms| */
static void reduce_case(vf_rng *r)
{
    char d[96];
    for (int i = 0; i < NPTS / 2; ++i)
    {
        size_t n = draw_n(r), c = 1 + (size_t)vf_below(r, 4), c2 = 1 + (size_t)vf_below(r, 4);
        a_real *p = (a_real *)malloc((n * c ? n * c : 1) * sizeof(a_real));
        a_real *y = (a_real *)malloc((n * c2 ? n * c2 : 1) * sizeof(a_real));
        a_real *pc = (a_real *)malloc((n ? n : 1) * sizeof(a_real)), *yc = (a_real *)malloc((n ? n : 1) * sizeof(a_real));
        q_t s = 0, s1 = 0, s2 = 0, dt = 0, adt = 0, bound;
        int integer = vf_chance(r, 1, 3);
        for (size_t j = 0; j < n * c; ++j) { p[j] = (a_real)777; }
        for (size_t j = 0; j < n * c2; ++j) { y[j] = (a_real)-555; }
        for (size_t j = 0; j < n; ++j)
        {
            a_real a = integer ? (a_real)vf_range(r, -1000, 1000) : (a_real)(vf_sign(r) * logu(r, -6, 6));
            a_real b = integer ? (a_real)vf_range(r, -1000, 1000) : (a_real)(vf_sign(r) * logu(r, -6, 6));
            p[j * c] = pc[j] = a;
            y[j * c2] = yc[j] = b;
            s += a; s1 += fabsq((q_t)a); s2 += (q_t)a * a; dt += (q_t)a * b; adt += fabsq((q_t)a * b);
        }
        snprintf(d, sizeof(d), "n=%zu strides %zu/%zu %s", n, c, c2, integer ? "integers" : "reals");
        if (i < 2) { vf_log("reductions %s", d); }
        bound = ((q_t)n + 2) * EPSQ;
#define RED(name, got, ref, scale)                                                                      \
    do {                                                                                                \
        q_t e_ = fabsq((q_t)(got) - (ref));                                                             \
        double ratio_ = (scale) == 0 ? (e_ == 0 ? 0 : 1e30) : (double)(e_ / (bound * (scale)));        \
        ++vf.evals;                                                                                     \
        VF_COUNT("judged/" name);                                                                       \
        VF_MAX("ratio/" name, ratio_);                                                                  \
        if (!(ratio_ <= 1) || (integer && e_ != 0 && (scale) < 1 / (2 * EPSQ) && strcmp(name, "mean") && strcmp(name, "mean_"))) \
        {                                                                                               \
            vf_viol("real/" name "/value", "%s: got %.17g expected %.17Lg (%.3g x (n+2)*eps*sum|terms|)%s", d, (double)(got), (long double)(ref), ratio_, integer ? " [exact integer data]" : ""); \
        }                                                                                               \
    } while (0)
        RED("sum", a_real_sum(n, pc), s, s1);
        RED("sum_", a_real_sum_(n, p, c), s, s1);
        RED("sum1", a_real_sum1(n, pc), s1, s1);
        RED("sum1_", a_real_sum1_(n, p, c), s1, s1);
        RED("sum2", a_real_sum2(n, pc), s2, s2);
        RED("sum2_", a_real_sum2_(n, p, c), s2, s2);
        RED("dot", a_real_dot(n, pc, yc), dt, adt);
        RED("dot_", a_real_dot_(n, p, c, y, c2), dt, adt);
        if (n)
        {
            RED("mean", a_real_mean(n, pc), s / (q_t)n, s1 / (q_t)n);
            RED("mean_", a_real_mean_(n, p, c), s / (q_t)n, s1 / (q_t)n);
        }
        /* a mean is always representable even where the sum is not: data near the largest finite value (same sign, mixed signs),
           judged against the binary128 mean (seeded change C11-H: mean rewritten as sum / n overflows although every element and
           the mean itself are finite) */
        if (n >= 2 && n <= 64 && (i % 4) == 1)
        {
            a_real *hp = (a_real *)malloc(n * c * sizeof(a_real)), *hc = (a_real *)malloc(n * sizeof(a_real));
            q_t hs = 0, hs1 = 0;
            int const same = vf_chance(r, 1, 2);
            for (size_t j = 0; j < n * c; ++j) { hp[j] = 0; }
            for (size_t j = 0; j < n; ++j)
            {
                a_real v = (a_real)((double)A_REAL_MAX * vf_uniform(r, 0.25, 1.0));
                if (!(v <= A_REAL_MAX)) { v = A_REAL_MAX; }
                if (!same && (j & 1)) { v = -v; }
                hp[j * c] = hc[j] = v;
                hs += v;
                hs1 += fabsq((q_t)v);
            }
            snprintf(d, sizeof(d), "n=%zu stride %zu, elements in [MAX/4, MAX] %s", n, c, same ? "of one sign" : "of alternating sign");
            vf_log("means of huge elements %s", d);
            RED("mean", a_real_mean(n, hc), hs / (q_t)n, hs1 / (q_t)n);
            RED("mean_", a_real_mean_(n, hp, c), hs / (q_t)n, hs1 / (q_t)n);
            VF_COUNT("means-of-elements-near-the-largest-finite-value");
            snprintf(d, sizeof(d), "n=%zu strides %zu/%zu %s", n, c, c2, integer ? "integers" : "reals");
            free(hp); free(hc);
        }
        /* increment 0: one operand is a single scalar used for every term (the BLAS idiom for a weighted sum). Still the defining formula: ordinary
           data within the usual bound, and data near the largest finite value with a scalar well below 1, where every term, every partial sum of
           terms in any order and the result are finite although the plain sum of the other operand is not (seeded change C11-M: the scalar is
           hoisted out, `sum_(X) * *Y`, and the result is inf) */
        if (n)
        {
            a_real const w = integer ? (a_real)vf_range(r, -1000, 1000) : (a_real)(vf_sign(r) * logu(r, -6, 6));
            q_t d0 = 0, ad0 = 0;
            for (size_t j = 0; j < n; ++j) { d0 += (q_t)pc[j] * w; ad0 += fabsq((q_t)pc[j] * w); }
            snprintf(d, sizeof(d), "n=%zu strides %zu/0, scalar %.17g, %s", n, c, (double)w, integer ? "integers" : "reals");
            RED("dot_-stride-0", a_real_dot_(n, p, c, &w, 0), d0, ad0);
            snprintf(d, sizeof(d), "n=%zu strides 0/%zu, scalar %.17g, %s", n, c, (double)w, integer ? "integers" : "reals");
            RED("dot_-stride-0", a_real_dot_(n, &w, 0, p, c), d0, ad0);
            if (n <= 8 && !integer)
            {
                a_real *hp = (a_real *)malloc(n * c * sizeof(a_real));
                a_real const sc = (a_real)(vf_sign(r) * 0.125 * vf_uniform(r, 0.5, 1.0));
                int const was = integer;
                d0 = ad0 = 0;
                for (size_t j = 0; j < n * c; ++j) { hp[j] = 0; }
                for (size_t j = 0; j < n; ++j)
                {
                    a_real v = (a_real)((double)A_REAL_MAX * vf_uniform(r, 0.25, 0.9) * vf_sign(r));
                    hp[j * c] = v;
                    d0 += (q_t)v * sc;
                    ad0 += fabsq((q_t)v * sc);
                }
                snprintf(d, sizeof(d), "n=%zu stride %zu, elements in +-[MAX/4, 0.9 MAX], times one scalar %.17g (increment 0)", n, c, (double)sc);
                vf_log("weighted sum of huge elements %s", d);
                RED("dot_-stride-0", a_real_dot_(n, hp, c, &sc, 0), d0, ad0);
                RED("dot_-stride-0", a_real_dot_(n, &sc, 0, hp, c), d0, ad0);
                VF_COUNT("weighted-sum-of-elements-near-the-largest-finite-value");
                (void)was;
                free(hp);
            }
            snprintf(d, sizeof(d), "n=%zu strides %zu/%zu %s", n, c, c2, integer ? "integers" : "reals");
        }
        /* the same array handed in twice (with equal and with different strides): still the defining formula */
        {
            size_t cm = c > c2 ? c : c2;
            a_real *al = (a_real *)malloc((n * cm ? n * cm : 1) * sizeof(a_real));
            q_t d1 = 0, ad1 = 0, d2 = 0, ad2 = 0;
            for (size_t j = 0; j < n * cm; ++j) { al[j] = integer ? (a_real)vf_range(r, -1000, 1000) : (a_real)(vf_sign(r) * logu(r, -6, 6)); }
            for (size_t j = 0; j < n; ++j)
            {
                d1 += (q_t)al[j * c] * al[j * c2];
                ad1 += fabsq((q_t)al[j * c] * al[j * c2]);
                d2 += (q_t)al[j] * al[j];
                ad2 += fabsq((q_t)al[j] * al[j]);
            }
            RED("dot_-same-array", a_real_dot_(n, al, c, al, c2), d1, ad1);
            RED("dot-same-array", a_real_dot(n, al, al), d2, ad2);
            free(al);
        }
        cell("reduce", (int)n, (q_t)(c * 8 + c2));
        free(p); free(y); free(pc); free(yc);
    }
}

/* copy / swap / fill / zero / push / roll: exact array model, canaries, every length 0..17 x 0..9 */
#define CAN 4
static a_real *mk_arr(size_t n, a_real base)
{
    a_real *p = (a_real *)malloc((n + 2 * CAN) * sizeof(a_real));
    for (size_t j = 0; j < n + 2 * CAN; ++j) { p[j] = (a_real)(-9999 - (double)j); }
    for (size_t j = 0; j < n; ++j) { p[CAN + j] = (a_real)(base + (double)j); }
    return p;
}
static int canary_ok(a_real const *p, size_t n)
{
    for (size_t j = 0; j < CAN; ++j)
    {
        if (p[j] != (a_real)(-9999 - (double)j) || p[CAN + n + j] != (a_real)(-9999 - (double)(CAN + n + j))) { return 0; }
    }
    return 1;
}
#define ARR_FAIL(name, ...) vf_viol("real/" name "/array-model", __VA_ARGS__)
static void arrays_case(vf_rng *r)
{
    (void)r;
    for (size_t n = 0; n <= 17; ++n)
    {
        for (size_t m = 0; m <= 9; ++m)
        {
            a_real *a = mk_arr(n, 100), *b = mk_arr(n, 500), *exa;
            a_real *ca = (a_real *)malloc((m ? m : 1) * sizeof(a_real)); /* cache / shift buffer: exact size m */
            size_t k;
            vf_log("array helpers n=%zu m=%zu", n, m);
            ++vf.evals;
            for (size_t j = 0; j < m; ++j) { ca[j] = (a_real)(900 + (double)j); }
            /* copy */
            a_real_copy(n, a + CAN, b + CAN);
            VF_COUNT("judged/copy-swap-fill-zero");
            for (size_t j = 0; j < n; ++j) { if (a[CAN + j] != (a_real)(500 + (double)j)) { ARR_FAIL("copy", "n=%zu element %zu", n, j); break; } }
            if (!canary_ok(a, n) || !canary_ok(b, n)) { ARR_FAIL("copy", "n=%zu wrote outside", n); }
            /* swap */
            for (size_t j = 0; j < n; ++j) { a[CAN + j] = (a_real)(100 + (double)j); }
            a_real_swap(n, a + CAN, b + CAN);
            for (size_t j = 0; j < n; ++j) { if (a[CAN + j] != (a_real)(500 + (double)j) || b[CAN + j] != (a_real)(100 + (double)j)) { ARR_FAIL("swap", "n=%zu element %zu", n, j); break; } }
            if (!canary_ok(a, n) || !canary_ok(b, n)) { ARR_FAIL("swap", "n=%zu wrote outside", n); }
            /* fill / zero */
            a_real_fill(n, a + CAN, (a_real)7);
            for (size_t j = 0; j < n; ++j) { if (a[CAN + j] != (a_real)7) { ARR_FAIL("fill", "n=%zu element %zu", n, j); break; } }
            a_real_zero(n, b + CAN);
            for (size_t j = 0; j < n; ++j) { if (b[CAN + j] != 0) { ARR_FAIL("zero", "n=%zu element %zu", n, j); break; } }
            if (!canary_ok(a, n) || !canary_ok(b, n)) { ARR_FAIL("fill-zero", "n=%zu wrote outside", n); }
            /* strided copy/swap: stride 1..3 on exact-size blocks */
            {
                size_t dc = 1 + m % 3, sc = 1 + (m / 3) % 3;
                a_real *d = (a_real *)malloc((n * dc ? n * dc : 1) * sizeof(a_real)), *s = (a_real *)malloc((n * sc ? n * sc : 1) * sizeof(a_real));
                for (size_t j = 0; j < n * dc; ++j) { d[j] = (a_real)-1; }
                for (size_t j = 0; j < n * sc; ++j) { s[j] = (a_real)(j % sc == 0 ? 300 + (double)(j / sc) : -2); }
                a_real_copy_(n, d, dc, s, sc);
                for (size_t j = 0; j < n * dc; ++j)
                {
                    a_real want = j % dc == 0 ? (a_real)(300 + (double)(j / dc)) : (a_real)-1;
                    if (d[j] != want) { ARR_FAIL("copy_", "n=%zu strides %zu/%zu cell %zu", n, dc, sc, j); break; }
                }
                a_real_swap_(n, d, dc, s, sc);
                for (size_t j = 0; j < n * sc; ++j)
                {
                    a_real want = j % sc == 0 ? (a_real)(300 + (double)(j / sc)) : (a_real)-2;
                    if (s[j] != want) { ARR_FAIL("swap_", "n=%zu strides %zu/%zu cell %zu", n, dc, sc, j); break; }
                }
                free(d);
                free(s);
            }
            /* push_fore / push_back (single element) */
            for (size_t j = 0; j < n; ++j) { a[CAN + j] = (a_real)(100 + (double)j); }
            a_real_push_fore(a + CAN, n, (a_real)42);
            VF_COUNT("judged/push-roll");
            for (size_t j = 0; j < n; ++j) { a_real want = j == 0 ? (a_real)42 : (a_real)(100 + (double)(j - 1)); if (a[CAN + j] != want) { ARR_FAIL("push_fore", "n=%zu element %zu", n, j); break; } }
            for (size_t j = 0; j < n; ++j) { a[CAN + j] = (a_real)(100 + (double)j); }
            a_real_push_back(a + CAN, n, (a_real)42);
            for (size_t j = 0; j < n; ++j) { a_real want = j + 1 == n ? (a_real)42 : (a_real)(100 + (double)(j + 1)); if (a[CAN + j] != want) { ARR_FAIL("push_back", "n=%zu element %zu", n, j); break; } }
            if (!canary_ok(a, n)) { ARR_FAIL("push", "n=%zu wrote outside", n); }
            /* block push: the last min(m,n) cache elements enter at the front / back, in order */
            k = m < n ? m : n;
            exa = (a_real *)malloc((n ? n : 1) * sizeof(a_real));
            for (size_t j = 0; j < n; ++j) { a[CAN + j] = (a_real)(100 + (double)j); }
            a_real_push_fore_(a + CAN, n, ca, m);
            for (size_t j = 0; j < n; ++j) { exa[j] = j < k ? (a_real)(900 + (double)(m - k + j)) : (a_real)(100 + (double)(j - k)); }
            if (n && memcmp(a + CAN, exa, n * sizeof(a_real)) != 0) { ARR_FAIL("push_fore_", "block n=%zu cache m=%zu", n, m); }
            for (size_t j = 0; j < n; ++j) { a[CAN + j] = (a_real)(100 + (double)j); }
            a_real_push_back_(a + CAN, n, ca, m);
            for (size_t j = 0; j < n; ++j) { exa[j] = j < n - k ? (a_real)(100 + (double)(j + k)) : (a_real)(900 + (double)(m - k + (j - (n - k)))); }
            if (n && memcmp(a + CAN, exa, n * sizeof(a_real)) != 0) { ARR_FAIL("push_back_", "block n=%zu cache m=%zu", n, m); }
            if (!canary_ok(a, n)) { ARR_FAIL("push_", "n=%zu m=%zu wrote outside", n, m); }
            /* roll by one */
            for (size_t j = 0; j < n; ++j) { a[CAN + j] = (a_real)(100 + (double)j); }
            a_real_roll_fore(a + CAN, n);
            for (size_t j = 0; j < n; ++j) { if (a[CAN + j] != (a_real)(100 + (double)((j + 1) % n))) { ARR_FAIL("roll_fore", "n=%zu element %zu", n, j); break; } }
            a_real_roll_back(a + CAN, n);
            for (size_t j = 0; j < n; ++j) { if (a[CAN + j] != (a_real)(100 + (double)j)) { ARR_FAIL("roll_back", "n=%zu element %zu (roll_back does not undo roll_fore)", n, j); break; } }
            /* roll by m (circular) with a shift buffer of exactly m cells */
            for (size_t j = 0; j < n; ++j) { a[CAN + j] = (a_real)(100 + (double)j); }
            VF_COUNT("judged/block-roll");
            if (n == 0) { VF_COUNT("judged/block-roll-empty-block"); }
            a_real_roll_fore_(a + CAN, n, ca, m);
            for (size_t j = 0; j < n; ++j) { if (a[CAN + j] != (a_real)(100 + (double)((j + m) % n))) { ARR_FAIL("roll_fore_", "block n=%zu shift m=%zu element %zu", n, m, j); break; } }
            a_real_roll_back_(a + CAN, n, ca, m);
            for (size_t j = 0; j < n; ++j) { if (a[CAN + j] != (a_real)(100 + (double)j)) { ARR_FAIL("roll_back_", "block n=%zu shift m=%zu element %zu (does not undo roll_fore_)", n, m, j); break; } }
            if (!canary_ok(a, n)) { ARR_FAIL("roll", "n=%zu m=%zu wrote outside", n, m); }
            cell("arrays", (int)n, (q_t)(m + 1));
            free(exa);
            free(ca);
            free(a);
            free(b);
        }
    }
}

static void vf_case(uint64_t c, vf_rng *r)
{
    switch ((int)(c / chunks))
    {
    case C_ASINH: unary(r, "asinh", "ASINH", m_asinh, vfx_asinh, asinhq, 0); break;
    case C_ACOSH: unary(r, "acosh", "ACOSH", m_acosh, vfx_acosh, acoshq, 1); break;
    case C_ATANH: unary(r, "atanh", "ATANH", m_atanh, vfx_atanh, atanhq, 2); break;
    case C_EXPM1: unary(r, "expm1", "EXPM1", m_expm1, vfx_expm1, expm1q, 0); break;
    case C_LOG1P: unary(r, "log1p", "LOG1P", m_log1p, vfx_log1p, log1pq, 3); break;
    case C_ATAN2: atan2_case(r); break;
    case C_NORM23: norm23_case(r); break;
    case C_NORMN: normn_case(r); break;
    case C_POLAR: polar_case(r); break;
    case C_SPHERE: sphere_case(r); break;
    case C_DEGRAD: degrad_case(r); break;
    case C_RSQRT: rsqrt_case(r); break;
    case C_REDUCE: reduce_case(r); break;
    default:
        if (c % chunks == 0) { arrays_case(r); } /* deterministic and exhaustive over (n, m): once per run */
        break;
    }
    (void)cnames;
    VF_ADD("skipped/condition-number-above-1e6", n_skip_cond);
    VF_ADD("skipped/result-not-representable", n_skip_range);
    n_skip_cond = n_skip_range = 0;
}
