/* C16, histories longer than 2^32 bytes (extra configuration "giant", built WITHOUT sanitizers for speed).
 *
 * "Starting from zero state ... for all orders" and "zeroing restores the initial state": the histories are cleared by the library
 * itself (a_tf_set_num / a_tf_set_den / a_tf_init / a_tf_zero) with a byte count of sizeof(a_real) * order.  The order is an
 * unsigned int, so for orders of 2^29 and more (double) the byte count only exists in a_size; a count kept in 32 bits (seeded
 * change C16-I: `n * (unsigned int)sizeof(a_real)` in a helper) clears `order mod 2^29` samples and is bit-identical below.
 * One case = one side (input history of the numerator, output history of the denominator) x one order (2^29, 2^29 + 5):
 *      the history is an anonymous mapping of order * sizeof(a_real) bytes, dirtied at marked positions (start, around
 *      order mod 2^29, the middle, around 2^29, the end);
 *      after a_tf_set_num / a_tf_set_den (or a_tf_init, chosen at random) every marked sample must read 0;
 *      dirtied again, after a_tf_zero every marked sample must read 0, on both sides.
 * The library's memset touches the whole history (4 GiB resident per running case), so a case is skipped - and counted as skipped -
 * when less than 12 GiB of memory is available.  a_tf_iter is not run at this order (a dense pass over 4 GiB of coefficients per
 * sample); the main configuration covers it up to 2^20 taps.
 */
#define VF_PROP "C16"
#include "vf_common.h"
#include "a/tf.h"
#include <sys/mman.h>
#include <unistd.h>

#define NORD 2
#define NCASE (2 * NORD)
static uint64_t vf_ncases(int tier) { (void)tier; return NCASE; }

static long avail_mib(void)
{
    FILE *f = fopen("/proc/meminfo", "r");
    char line[160];
    long kb = -1;
    if (!f) { return -1; }
    while (fgets(line, sizeof line, f))
    {
        if (sscanf(line, "MemAvailable: %ld kB", &kb) == 1) { break; }
    }
    fclose(f);
    return kb < 0 ? -1 : kb / 1024;
}

#define NMARK 12
static size_t marks[NMARK];
static void set_marks(size_t n)
{
    size_t const wrap = ((size_t)1 << 32) / sizeof(a_real), low = n % wrap;
    size_t const m[NMARK] = {0, 1, low ? low - 1 : 0, low, low + 1, wrap / 2, wrap - 1, wrap < n ? wrap : n - 1, wrap + 1 < n ? wrap + 1 : n - 1, n / 2, n - 2, n - 1};
    for (unsigned i = 0; i < NMARK; ++i) { marks[i] = m[i] < n ? m[i] : n - 1; }
}
static void dirty(a_real *h, vf_rng *r)
{
    for (unsigned i = 0; i < NMARK; ++i) { h[marks[i]] = (a_real)(1 + vf_below(r, 9)); }
}
static int all_clear(a_real const *h, size_t *where, a_real *what)
{
    for (unsigned i = 0; i < NMARK; ++i)
    {
        if (h[marks[i]] != 0) { *where = marks[i]; *what = h[marks[i]]; return 0; }
    }
    return 1;
}

static void vf_case(uint64_t c, vf_rng *r)
{
    int const den_side = (int)(c & 1), via_init = (int)vf_below(r, 2);
    size_t const wrap = ((size_t)1 << 32) / sizeof(a_real);
    unsigned int const n = (unsigned int)(wrap + (c >> 1 & 1 ? 5 : 0)), small_n = 3;
    size_t const bytes = (size_t)n * sizeof(a_real);
    static a_real small_c[3] = {1, (a_real)0.5, (a_real)0.25}, small_h[3];
    a_real *coef, *hist, what = 0;
    size_t where = 0;
    a_tf tf;
    long const mib = avail_mib();
    if (sizeof(a_real) * (size_t)UINT_MAX < ((size_t)1 << 32)) { VF_COUNT("giant-order-not-reachable-with-this-real-type"); return; }
    if (mib >= 0 && mib < 12288) { VF_COUNT("giant-skipped-less-than-12-GiB-available"); vf_log("skipped: %ld MiB available", mib); return; }
    coef = (a_real *)mmap(NULL, bytes, PROT_READ, MAP_PRIVATE | MAP_ANONYMOUS | MAP_NORESERVE, -1, 0); /* all-zero coefficients, never read here */
    hist = (a_real *)mmap(NULL, bytes, PROT_READ | PROT_WRITE, MAP_PRIVATE | MAP_ANONYMOUS | MAP_NORESERVE, -1, 0);
    if (coef == MAP_FAILED || hist == MAP_FAILED) { VF_COUNT("giant-mapping-refused"); return; }
    set_marks(n);
    vf_log("%s history of %u samples (%zu bytes), set through %s", den_side ? "output" : "input", n, bytes, via_init ? "a_tf_init" : den_side ? "a_tf_set_den" : "a_tf_set_num");
    dirty(hist, r);
    small_h[0] = small_h[1] = small_h[2] = 7;
    memset(&tf, 0, sizeof tf);
    if (via_init)
    {
        if (den_side) { a_tf_init(&tf, small_n, small_c, small_h, n, coef, hist); }
        else { a_tf_init(&tf, n, coef, hist, small_n, small_c, small_h); }
    }
    else if (den_side) { a_tf_set_num(&tf, small_n, small_c, small_h); a_tf_set_den(&tf, n, coef, hist); }
    else { a_tf_set_num(&tf, n, coef, hist); a_tf_set_den(&tf, small_n, small_c, small_h); }
    ++vf.evals;
    VF_COUNT("giant-history-cleared-by-setter");
    if (!all_clear(hist, &where, &what))
    {
        char key[96];
        snprintf(key, sizeof key, "%s/order-of-2^32-bytes-and-more/history-not-cleared", via_init ? "a_tf_init" : den_side ? "a_tf_set_den" : "a_tf_set_num");
        vf_viol(key, "%s history of %u samples re-used from earlier work: sample %zu still reads %g after the setter (%zu = %zu mod 2^32 bytes / sizeof(a_real))", den_side ? "output" : "input", n,
                where, (double)what, (size_t)n % wrap, (size_t)n % wrap);
    }
    if (small_h[0] != 0 || small_h[2] != 0) { vf_viol("a_tf_set/small-side-not-cleared", "the 3-sample history on the other side was not cleared"); }
    dirty(hist, r);
    small_h[0] = small_h[1] = small_h[2] = 7;
    a_tf_zero(&tf);
    ++vf.evals;
    VF_COUNT("giant-history-cleared-by-zero");
    if (!all_clear(hist, &where, &what))
    {
        vf_viol("a_tf_zero/order-of-2^32-bytes-and-more/history-not-cleared", "%s history of %u samples: sample %zu still reads %g after a_tf_zero", den_side ? "output" : "input", n, where, (double)what);
    }
    if (small_h[0] != 0 || small_h[2] != 0) { vf_viol("a_tf_zero/small-side-not-cleared", "the 3-sample history on the other side was not cleared by a_tf_zero"); }
    vf_distinct(vf_hash64(0x1616, c));
    if (vf_want_sample()) { vf_sample("%s history of %u samples (%zu bytes): all %d marked samples read 0 after the setter and again after a_tf_zero", den_side ? "output" : "input", n, bytes, NMARK); }
    munmap(coef, bytes);
    munmap(hist, bytes);
}
