/* Re-entrancy monitor (configurations "mt", built with -fsanitize=thread): included by the h_mt_*.c harnesses after vf_common.h.
 *
 * The properties hold "for every input, schedule or history": none of the anchored routines is documented as keeping state
 * outside the objects the caller passes in, so two threads that share NOTHING (each works on private objects, tables, messages)
 * must each see the results a single thread sees.  A routine that parks intermediate data in a function-local `static`
 * ("kept off the stack"), caches its last argument in file scope, or publishes through a global breaks that - and is
 * bit-identical in every single-threaded run, whatever the inputs, sizes, compilers and build switches (seeded changes C08-J,
 * C10-J, C15-J, C17-J).
 *
 * A harness defines work ITEMS: `uint64_t item(vf_rng *r)` draws private data from r, calls the library and folds every
 * result (return values, output arrays, object contents) into the digest it returns.  One case =
 *      phase 1   the main thread runs every item alone, several rounds of inputs each: reference digests
 *      phase 2   MT_THREADS threads run all (item, round) pairs concurrently, every thread in a different rotation so that
 *                the same routine is inside different threads with different data at the same time; each digest must equal
 *                the reference
 * Two independent observers: the digests (a corrupted result) and ThreadSanitizer (an unsynchronised access to shared
 * library state is reported even when no value was disturbed in this schedule; the driver turns a report into a
 * `san/tsan:data-race@<function>` violation).  The harness's own shared state is read-only during phase 2 except for the
 * per-thread result slots.
 */
#ifndef VF_MT_H
#define VF_MT_H
#include <pthread.h>

typedef struct { char const *name; uint64_t (*fn)(vf_rng *r); } mt_item;
#define MT_THREADS 4
#define MT_ROUNDS 6
#define MT_MAXITEMS 96

static mt_item const *mt_items;
static unsigned mt_nitems;
static uint64_t mt_case;
static uint64_t mt_ref[MT_MAXITEMS][MT_ROUNDS];
typedef struct { unsigned tid; unsigned bad_item, bad_round; uint64_t bad_digest; int nbad; uint64_t done; } mt_slot;
static mt_slot mt_slots[MT_THREADS];

static inline void mt_rng(vf_rng *r, unsigned k, unsigned round) { vf_rng_seed(r, vf.seed ^ 0x6d74u, mt_case * 1000003u + k, round); }

static inline uint64_t mt_fold_bytes(uint64_t h, void const *p, size_t n)
{
    unsigned char const *b = (unsigned char const *)p;
    for (size_t i = 0; i < n; ++i) { h = (h ^ b[i]) * 0x100000001B3ULL; }
    return h;
}
static inline uint64_t mt_fold_u64(uint64_t h, uint64_t v) { return mt_fold_bytes(h, &v, sizeof v); }
static inline uint64_t mt_fold_real(uint64_t h, a_real v)
{
    /* value bits only: long double carries padding bytes */
    unsigned char b[16] = {0};
    memcpy(b, &v, sizeof(a_real) > 10 && sizeof(a_real) == 16 ? 10 : sizeof(a_real));
    return mt_fold_bytes(h, b, sizeof b);
}

static void *mt_thread(void *arg)
{
    mt_slot *s = (mt_slot *)arg;
    for (unsigned pass = 0; pass < 2; ++pass)
    {
        for (unsigned i = 0; i < mt_nitems * MT_ROUNDS; ++i)
        {
            /* thread t starts a quarter of the way further round the (item, round) ring, second pass in reverse */
            unsigned const at = (i + s->tid * (mt_nitems * MT_ROUNDS / MT_THREADS + 1)) % (mt_nitems * MT_ROUNDS);
            unsigned const j = pass ? mt_nitems * MT_ROUNDS - 1 - at : at, k = j % mt_nitems, round = j / mt_nitems;
            vf_rng r;
            uint64_t d;
            mt_rng(&r, k, round);
            d = mt_items[k].fn(&r);
            ++s->done;
            if (d != mt_ref[k][round] && !s->nbad++) { s->bad_item = k; s->bad_round = round; s->bad_digest = d; }
        }
    }
    return NULL;
}

static void mt_run_case(uint64_t c, mt_item const *items, unsigned nitems)
{
    pthread_t th[MT_THREADS];
    if (nitems > MT_MAXITEMS) { fprintf(stderr, "vf_mt: too many items\n"); exit(2); }
    mt_items = items; mt_nitems = nitems; mt_case = c;
    vf_log("re-entrancy: %u items x %d rounds alone, then from %d threads at once", nitems, MT_ROUNDS, MT_THREADS);
    for (unsigned k = 0; k < nitems; ++k)
    {
        for (unsigned round = 0; round < MT_ROUNDS; ++round)
        {
            vf_rng r, r2;
            mt_rng(&r, k, round);
            mt_ref[k][round] = items[k].fn(&r);
            ++vf.evals;
            if (round == 0)
            {
                /* an item must be a function of its inputs alone, otherwise the comparison below means nothing */
                mt_rng(&r2, k, round);
                if (items[k].fn(&r2) != mt_ref[k][round])
                {
                    char key[128];
                    snprintf(key, sizeof key, "reentrancy/%s/second-sequential-run-differs", items[k].name);
                    vf_viol(key, "item %s gives another digest when simply run again with the same inputs (single thread)", items[k].name);
                }
            }
        }
    }
    for (unsigned t = 0; t < MT_THREADS; ++t)
    {
        memset(&mt_slots[t], 0, sizeof mt_slots[t]);
        mt_slots[t].tid = t;
        if (pthread_create(&th[t], NULL, mt_thread, &mt_slots[t])) { fprintf(stderr, "vf_mt: pthread_create failed\n"); exit(2); }
    }
    for (unsigned t = 0; t < MT_THREADS; ++t) { pthread_join(th[t], NULL); }
    for (unsigned t = 0; t < MT_THREADS; ++t)
    {
        vf.evals += mt_slots[t].done;
        vf_count_dyn("concurrent-item-runs-compared-with-single-thread", mt_slots[t].done);
        if (mt_slots[t].nbad)
        {
            char key[128];
            mt_item const *it = &items[mt_slots[t].bad_item];
            snprintf(key, sizeof key, "reentrancy/%s/result-differs-when-run-concurrently", it->name);
            vf_viol(key, "item %s (round %u): digest %016" PRIx64 " from thread %u while %d threads work on private data, %016" PRIx64 " when run alone (%d of %" PRIu64 " runs of this thread differ)",
                    it->name, mt_slots[t].bad_round, mt_slots[t].bad_digest, t, MT_THREADS, mt_ref[mt_slots[t].bad_item][mt_slots[t].bad_round], mt_slots[t].nbad, mt_slots[t].done);
        }
    }
    for (unsigned k = 0; k < nitems; ++k)
    {
        char nm[96];
        snprintf(nm, sizeof nm, "mt-item/%s", items[k].name);
        vf_count_dyn(nm, 1);
        vf_distinct(vf_hash64(vf_hash_str(items[k].name), mt_ref[k][0]));
    }
    if (vf_want_sample()) { vf_sample("%u items (%s ...) x %d rounds: %d threads on private data reproduce the single-thread digests, no ThreadSanitizer report", nitems, items[0].name, MT_ROUNDS, MT_THREADS); }
}
#endif
