/* vf_free32.h - freestanding runtime for the "ilp32" configurations: the harness and the library sources are compiled by
 *   clang -m32 -ffreestanding -nostdlib -static
 * into a self-contained i386 program (own _start, system calls through int 0x80, no C library - none is installed for that target) which this
 * x86-64 kernel executes natively.  It is the one OTHER data model that can be EXECUTED in this sandbox: ILP32, little-endian - int, long, size_t
 * and pointers are all 32 bits, `unsigned long` is narrower than a_u64, two pointer-aligned words make one 64-bit value, the packed parent word of
 * the tree nodes is 32 bits wide (seeded change C17-L: a word-at-a-time CRC accumulating in `unsigned long`, exact wherever long has 64 bits).
 *
 * It speaks the same protocol as vf_common.h (JSON lines on stdout, case journal, --seed / --tier / --only / --start / --worker / --nworkers), with a
 * much smaller surface: fixed-size output buffer, no floating point, no printf.  A harness defines VF_PROP, includes this file, and provides
 *   static u64 vf_ncases(int tier);   static void vf_case(u64 case_no, vf_rng *r);
 * Reports: vf_viol(key, msg) (msg assembled with the vf_m* helpers below), VF_COUNT(name), vf_distinct(h), ++vf.evals. */
#ifndef VF_FREE32_H
#define VF_FREE32_H
typedef unsigned char u8;
typedef unsigned short u16;
typedef unsigned int u32;
typedef unsigned long long u64;
typedef long long i64;
typedef __SIZE_TYPE__ size_t;
_Static_assert(sizeof(void *) == 4 && sizeof(long) == 4 && sizeof(size_t) == 4, "this runtime is for the ILP32 build only");

/* ------------------------------------------------------------------ system calls (i386 Linux) */
static long vf_sys(long n, long a, long b, long c)
{
    long r;
    __asm__ volatile("int $0x80" : "=a"(r) : "a"(n), "b"(a), "c"(b), "d"(c) : "memory");
    return r;
}
static void vf_exit(int rc) { for (;;) { vf_sys(1, rc, 0, 0); } }
static void vf_write(int fd, void const *p, u32 n)
{
    u8 const *b = (u8 const *)p;
    while (n) { long k = vf_sys(4, fd, (long)b, (long)n); if (k <= 0) { return; } b += k; n -= (u32)k; }
}

/* ------------------------------------------------------------------ what the compiler may call on its own */
void *memcpy(void *d, void const *s, size_t n) { u8 *x = (u8 *)d; u8 const *y = (u8 const *)s; while (n--) { *x++ = *y++; } return d; }
void *memmove(void *d, void const *s, size_t n)
{
    u8 *x = (u8 *)d; u8 const *y = (u8 const *)s;
    if (x < y) { while (n--) { *x++ = *y++; } } else { x += n; y += n; while (n--) { *--x = *--y; } }
    return d;
}
void *memset(void *d, int c, size_t n) { u8 *x = (u8 *)d; while (n--) { *x++ = (u8)c; } return d; }
int memcmp(void const *a, void const *b, size_t n) { u8 const *x = (u8 const *)a, *y = (u8 const *)b; for (; n--; ++x, ++y) { if (*x != *y) { return *x < *y ? -1 : 1; } } return 0; }
size_t strlen(char const *s) { size_t n = 0; while (s[n]) { ++n; } return n; }
int strcmp(char const *a, char const *b) { while (*a && *a == *b) { ++a; ++b; } return (u8)*a - (u8)*b; }
/* the rest of what a library source may reasonably take from <string.h> (seeded change C18-M uses memchr): a change that calls one of them must
   still link here, or the whole configuration is lost to it */
void *memchr(void const *s, int c, size_t n) { u8 const *x = (u8 const *)s; for (; n--; ++x) { if (*x == (u8)c) { return (void *)(size_t)x; } } return 0; }
void *memrchr(void const *s, int c, size_t n) { u8 const *x = (u8 const *)s + n; while (n--) { if (*--x == (u8)c) { return (void *)(size_t)x; } } return 0; }
int strncmp(char const *a, char const *b, size_t n) { for (; n--; ++a, ++b) { if (*a != *b || !*a) { return (u8)*a - (u8)*b; } } return 0; }
size_t strnlen(char const *s, size_t m) { size_t n = 0; while (n < m && s[n]) { ++n; } return n; }
char *strchr(char const *s, int c) { for (;; ++s) { if (*s == (char)c) { return (char *)(size_t)s; } if (!*s) { return 0; } } }
char *strcpy(char *d, char const *s) { char *r = d; while ((*d++ = *s++)) {} return r; }
/* 64-bit division on a 32-bit target goes through these (normally in libgcc / compiler-rt): plain shift-and-subtract */
u64 __udivmoddi4(u64 n, u64 d, u64 *rem)
{
    u64 q = 0, r = 0;
    if (d == 0) { vf_exit(3); }
    for (int i = 63; i >= 0; --i)
    {
        r = (r << 1) | ((n >> i) & 1);
        if (r >= d) { r -= d; q |= 1ULL << i; }
    }
    if (rem) { *rem = r; }
    return q;
}
u64 __udivdi3(u64 n, u64 d) { return __udivmoddi4(n, d, 0); }
u64 __umoddi3(u64 n, u64 d) { u64 r; __udivmoddi4(n, d, &r); return r; }
i64 __divdi3(i64 n, i64 d) { int neg = (n < 0) ^ (d < 0); u64 q = __udivmoddi4(n < 0 ? 0 - (u64)n : (u64)n, d < 0 ? 0 - (u64)d : (u64)d, 0); return neg ? -(i64)q : (i64)q; }
i64 __moddi3(i64 n, i64 d) { u64 r; __udivmoddi4(n < 0 ? 0 - (u64)n : (u64)n, d < 0 ? 0 - (u64)d : (u64)d, &r); return n < 0 ? -(i64)r : (i64)r; }

/* ------------------------------------------------------------------ PRNG (same generator as vf_common.h) */
typedef struct { u64 s[4]; } vf_rng;
static u64 vf_splitmix(u64 *x) { u64 z = (*x += 0x9E3779B97F4A7C15ULL); z = (z ^ (z >> 30)) * 0xBF58476D1CE4E5B9ULL; z = (z ^ (z >> 27)) * 0x94D049BB133111EBULL; return z ^ (z >> 31); }
static void vf_rng_seed(vf_rng *r, u64 a, u64 b, u64 c)
{
    u64 x = a * 0xD6E8FEB86659FD93ULL + 0x1234567;
    x ^= vf_splitmix(&x) + b * 0xA0761D6478BD642FULL;
    x ^= vf_splitmix(&x) + c * 0xE7037ED1A0B428DBULL;
    for (int i = 0; i < 4; ++i) { r->s[i] = vf_splitmix(&x); }
}
static u64 vf_rotl(u64 x, int k) { return (x << k) | (x >> (64 - k)); }
static u64 vf_u64(vf_rng *r)
{
    u64 const result = vf_rotl(r->s[1] * 5, 7) * 9, t = r->s[1] << 17;
    r->s[2] ^= r->s[0]; r->s[3] ^= r->s[1]; r->s[1] ^= r->s[2]; r->s[0] ^= r->s[3]; r->s[2] ^= t; r->s[3] = vf_rotl(r->s[3], 45);
    return result;
}
static u64 vf_below(vf_rng *r, u64 n) { return n ? (vf_u64(r) >> 11) % n : 0; } /* no 128-bit type here; the slight bias is irrelevant */
static u64 vf_hash64(u64 h, u64 v) { h ^= v + 0x9E3779B97F4A7C15ULL + (h << 6) + (h >> 2); return vf_splitmix(&h); }
static u64 vf_hash_str(char const *s) { u64 h = 0xCBF29CE484222325ULL; while (*s) { h = (h ^ (u8)*s++) * 0x100000001B3ULL; } return h; }

/* ------------------------------------------------------------------ output */
static char vf_obuf[1 << 16];
static u32 vf_olen;
static void vf_flush(void) { vf_write(1, vf_obuf, vf_olen); vf_olen = 0; }
static void vf_oc(char c) { if (vf_olen == sizeof vf_obuf) { vf_flush(); } vf_obuf[vf_olen++] = c; }
static void vf_os(char const *s) { while (*s) { vf_oc(*s++); } }
static void vf_ou(u64 v) { char t[24]; int n = 0; do { t[n++] = (char)('0' + (int)(v % 10)); v /= 10; } while (v); while (n) { vf_oc(t[--n]); } }
static void vf_ojs(char const *s)
{
    vf_oc('"');
    for (; *s; ++s)
    {
        u8 const c = (u8)*s;
        if (c == '"' || c == '\\') { vf_oc('\\'); vf_oc((char)c); }
        else if (c < 0x20) { vf_oc(' '); }
        else { vf_oc((char)c); }
    }
    vf_oc('"');
}
/* message assembly */
static char vf_msg[1024];
static u32 vf_mlen;
static void vf_m0(void) { vf_mlen = 0; vf_msg[0] = 0; }
static void vf_ms(char const *s) { while (*s && vf_mlen + 1 < sizeof vf_msg) { vf_msg[vf_mlen++] = *s++; } vf_msg[vf_mlen] = 0; }
static void vf_mu(u64 v) { char t[24]; int n = 0; do { t[n++] = (char)('0' + (int)(v % 10)); v /= 10; } while (v); while (n && vf_mlen + 1 < sizeof vf_msg) { vf_msg[vf_mlen++] = t[--n]; } vf_msg[vf_mlen] = 0; }
static void vf_mx(u64 v) { static char const H[] = "0123456789abcdef"; char t[20]; int n = 0; do { t[n++] = H[v & 15]; v >>= 4; } while (v); vf_ms("0x"); while (n && vf_mlen + 1 < sizeof vf_msg) { vf_msg[vf_mlen++] = t[--n]; } vf_msg[vf_mlen] = 0; }

/* ------------------------------------------------------------------ run state */
#define VF_MAXCTR 64
static struct
{
    u64 seed, case_no, evals, nviol, start, maxcases;
    i64 only;
    u32 worker, nworkers;
    int tier, explain, case_viol;
    char const *config, *journal;
    int jfd;
    struct { char const *name; u64 n; } ctr[VF_MAXCTR];
    int nctr;
    u64 dset[512];
    u32 dnum;
    struct { u64 h; u32 n; } vk[64];
    int nvk;
} vf;

static void vf_journal_write(u64 case_no, u64 done)
{
    /* header of vf_journal in vf_common.h: magic, case_no, cases_done, text_len, truncated */
    struct { u64 magic, case_no, done; u32 tlen, trunc; } h = {0x56464A524E4C3031ULL, case_no, done, 0, 0};
    if (vf.jfd < 0) { return; }
    vf_sys(19, vf.jfd, 0, 0); /* lseek(fd, 0, SEEK_SET) */
    vf_write(vf.jfd, &h, sizeof h);
}
static void vf_viol(char const *key, char const *msg)
{
    u64 const h = vf_hash_str(key);
    int i;
    ++vf.nviol;
    vf.case_viol = 1;
    for (i = 0; i < vf.nvk && vf.vk[i].h != h; ++i) {}
    if (i == vf.nvk) { if (vf.nvk < 64) { vf.vk[vf.nvk].h = h; vf.vk[vf.nvk].n = 0; ++vf.nvk; } else { i = 63; } }
    if (vf.vk[i].n++ >= 3) { return; }
    vf_os("{\"t\":\"viol\",\"key\":"); vf_ojs(key);
    vf_os(",\"case\":"); vf_ou(vf.case_no);
    vf_os(",\"config\":"); vf_ojs(vf.config);
    vf_os(",\"msg\":"); vf_ojs(msg);
    vf_os(",\"log\":\"(i386 freestanding build: no operation log; re-run the case with --only)\"}\n");
    vf_flush();
}
static int vf_counter_id(char const *name)
{
    for (int i = 0; i < vf.nctr; ++i) { if (strcmp(vf.ctr[i].name, name) == 0) { return i; } }
    if (vf.nctr >= VF_MAXCTR) { vf_exit(2); }
    vf.ctr[vf.nctr].name = name;
    return vf.nctr++;
}
#define VF_ADD(name, k) do { static int vf_i_ = -1; if (vf_i_ < 0) { vf_i_ = vf_counter_id(name); } vf.ctr[vf_i_].n += (u64)(k); } while (0)
#define VF_COUNT(name) VF_ADD(name, 1)
static void vf_distinct(u64 h)
{
    for (u32 i = 0; i < vf.dnum; ++i) { if (vf.dset[i] == h) { return; } }
    if (vf.dnum < 512) { vf.dset[vf.dnum++] = h; }
}

static u64 vf_ncases(int tier);
static void vf_case(u64 case_no, vf_rng *r);

static u64 vf_atou(char const *s) { u64 v = 0; while (*s >= '0' && *s <= '9') { v = v * 10 + (u64)(*s++ - '0'); } return v; }

static void vf_on_alarm(int sig) { (void)sig; vf_flush(); vf_exit(124); }

__attribute__((used)) static void vf_entry(unsigned long *sp)
{
    int const argc = (int)sp[0];
    char **argv = (char **)(sp + 1);
    u64 total, ran = 0;
    u32 case_timeout = 0;
    vf.seed = 1; vf.nworkers = 1; vf.only = -1; vf.config = "ilp32"; vf.maxcases = ~0ULL; vf.jfd = -1;
    for (int i = 1; i < argc; ++i)
    {
        char const *a = argv[i], *v = i + 1 < argc ? argv[i + 1] : "";
        if (!strcmp(a, "--seed")) { vf.seed = vf_atou(v); ++i; }
        else if (!strcmp(a, "--worker")) { vf.worker = (u32)vf_atou(v); ++i; }
        else if (!strcmp(a, "--nworkers")) { vf.nworkers = (u32)vf_atou(v); ++i; }
        else if (!strcmp(a, "--tier")) { vf.tier = !strcmp(v, "thorough"); ++i; }
        else if (!strcmp(a, "--only")) { vf.only = (i64)vf_atou(v); ++i; }
        else if (!strcmp(a, "--start")) { vf.start = vf_atou(v); ++i; }
        else if (!strcmp(a, "--maxcases")) { vf.maxcases = vf_atou(v); ++i; }
        else if (!strcmp(a, "--config")) { vf.config = v; ++i; }
        else if (!strcmp(a, "--journal")) { vf.journal = v; ++i; }
        else if (!strcmp(a, "--case-timeout")) { case_timeout = (u32)vf_atou(v); ++i; }
        else if (!strcmp(a, "--dfile") || !strcmp(a, "--spread")) { ++i; }
        else if (!strcmp(a, "--explain")) { vf.explain = 1; }
        else if (!strcmp(a, "--hashed-shares")) {}
        else { vf_write(2, "vf32: unknown option\n", 21); vf_exit(2); }
    }
    if (!vf.nworkers) { vf.nworkers = 1; }
    {
        /* old_sigaction (syscall 67): handler, mask, flags, restorer - the handler never returns, so no restorer is needed */
        static struct { void (*handler)(int); unsigned long mask, flags; void (*restorer)(void); } act;
        act.handler = vf_on_alarm;
        vf_sys(67, 14 /* SIGALRM */, (long)&act, 0);
    }
    if (vf.journal) { vf.jfd = (int)vf_sys(5, (long)vf.journal, 0x241 /* O_WRONLY|O_CREAT|O_TRUNC */, 0644); }
    total = vf_ncases(vf.tier);
    for (u64 c = 0; c < total && ran < vf.maxcases; ++c)
    {
        vf_rng r;
        if (vf.only >= 0) { if (c != (u64)vf.only) { continue; } }
        else if (c % vf.nworkers != vf.worker || c < vf.start) { continue; }
        vf_rng_seed(&r, vf.seed, vf_hash_str(VF_PROP), c);
        vf.case_no = c;
        vf.case_viol = 0;
        vf_journal_write(c, ran);
        /* watchdog: alarm(2); the handler leaves with status 124, which the driver treats as a hang of the case named in the journal (a library routine that
           never returns on this data model, e.g. a binary gcd counting trailing zeros with a 32-bit builtin) */
        vf_sys(27, (long)(case_timeout && case_timeout < 20 ? case_timeout : 20), 0, 0); /* >= 500 x the median case time */
        vf_case(c, &r);
        vf_sys(27, 0, 0, 0);
        ++ran;
    }
    vf_journal_write(~0ULL, ran);
    vf_os("{\"t\":\"sum\",\"prop\":\"" VF_PROP "\",\"config\":"); vf_ojs(vf.config);
    vf_os(",\"worker\":"); vf_ou(vf.worker);
    vf_os(",\"cases\":"); vf_ou(ran);
    vf_os(",\"total_cases\":"); vf_ou(total);
    vf_os(",\"evals\":"); vf_ou(vf.evals);
    vf_os(",\"nviol\":"); vf_ou(vf.nviol);
    vf_os(",\"distinct\":"); vf_ou(vf.dnum);
    vf_os(",\"wall\":0.0,\"counters\":{");
    for (int i = 0; i < vf.nctr; ++i) { if (i) { vf_oc(','); } vf_ojs(vf.ctr[i].name); vf_oc(':'); vf_ou(vf.ctr[i].n); }
    vf_os("},\"max\":{},\"samples\":[]}\n");
    vf_flush();
    vf_exit(0);
}
/* the kernel enters here with argc at the top of the stack */
__asm__(".text\n.globl _start\n_start:\n    mov %esp, %eax\n    and $-16, %esp\n    sub $12, %esp\n    push %eax\n    call vf_entry\n    hlt\n");
#endif /* VF_FREE32_H */
