/* C11, strides and lengths beyond 2^32 (extra configuration "giant", double build, WITHOUT sanitizers for speed).
 *
 * "Sums, means, dot products and copy/swap/fill/shift helpers equal their defining formulas for all lengths and strides": the
 * lengths and strides are a_size.  A counter, an index n * c or a byte count sizeof(a_real) * n kept in 32 bits is bit-identical
 * for everything the main configuration can allocate densely (lengths to 2^20).
 *
 *   strided group (case 0..S-1): n = 3..5 elements at a stride of 2^29, 2^29 + 1, 2^31 + 7 or 2^32 + 3 elements (4..34 GiB apart)
 *      in an anonymous mapping that is only touched at those elements; sum_, sum1_, sum2_, mean_, norm_, dot_ (giant stride on
 *      either side), copy_ and swap_ (giant stride on either side) against the defining formulas on small integers (exact).
 *   giant-count group (one case per routine): n = 2^32 + 5 contiguous elements (32 GiB of address space, all reading the shared
 *      zero page except six marked elements on both sides of index 2^32); sum, sum1, sum2, mean, norm, dot, dot with itself
 *      must see every marked element.  One pass costs about 7 s, so the quick tier runs two routines (chosen by the seed) and the
 *      thorough tier all of them.
 * The writing helpers (copy, fill, zero, push, roll) at 2^32 elements would need 32 GiB resident and are not run.
 */
#define VF_PROP "C11"
#include "vf_common.h"
#include "a/math.h"
#include <sys/mman.h>
#include <unistd.h>

static size_t const strides[] = {(size_t)1 << 29, ((size_t)1 << 29) + 1, ((size_t)1 << 31) + 7, ((size_t)1 << 32) + 3};
#define NSTRIDE ((int)(sizeof strides / sizeof strides[0]))
#define NROUT 7
static char const *const RN[NROUT] = {"sum", "sum1", "sum2", "mean", "norm", "dot", "dot-with-itself"};
static uint64_t vf_ncases(int tier) { return (uint64_t)NSTRIDE + 1 + (tier ? NROUT : 2); }

static a_real *map_reals(size_t n)
{
    void *p = mmap(NULL, n * sizeof(a_real), PROT_READ | PROT_WRITE, MAP_PRIVATE | MAP_ANONYMOUS | MAP_NORESERVE, -1, 0);
    return p == MAP_FAILED ? NULL : (a_real *)p;
}
static int close_to(a_real got, double want)
{
    return fabs((double)got - want) <= 8 * (double)A_REAL_EPSILON * fabs(want);
}

static void strided_case(int si, vf_rng *r)
{
    size_t const c = strides[si], n = 3 + (size_t)vf_below(r, 3), span = (n - 1) * c + 1;
    a_real *g = map_reals(span), *h = map_reals(span), s[5], t[5];
    double v[5], w[5], S = 0, S1 = 0, S2 = 0, D = 0;
    char key[96];
    if (!g || !h) { VF_COUNT("giant-mapping-refused"); return; }
    for (size_t j = 0; j < n; ++j)
    {
        v[j] = (double)((long)vf_below(r, 41) - 20);
        w[j] = (double)((long)vf_below(r, 41) - 20);
        g[j * c] = (a_real)v[j];
        s[j] = (a_real)w[j];
        S += v[j]; S1 += fabs(v[j]); S2 += v[j] * v[j]; D += v[j] * w[j];
    }
    vf_log("strided helpers: n=%zu elements at a stride of %zu elements (%zu bytes)", n, c, c * sizeof(a_real));
#define CHECK(name, got, want, exact)                                                                                             \
    do {                                                                                                                          \
        a_real const got_ = (got);                                                                                                \
        ++vf.evals;                                                                                                               \
        if ((exact) ? (double)got_ != (want) : !close_to(got_, (want)))                                                           \
        {                                                                                                                         \
            snprintf(key, sizeof key, "real/%s/stride-of-2^32-bytes-and-more", name);                                              \
            vf_viol(key, "a_real_%s(n=%zu, stride %zu) = %.17g, the defining formula gives %.17g", name, n, c, (double)got_, (double)(want)); \
        }                                                                                                                         \
    } while (0)
    CHECK("sum_", a_real_sum_(n, g, c), S, 1);
    CHECK("sum1_", a_real_sum1_(n, g, c), S1, 1);
    CHECK("sum2_", a_real_sum2_(n, g, c), S2, 1);
    CHECK("mean_", a_real_mean_(n, g, c), S / (double)n, 0);
    CHECK("norm_", a_real_norm_(n, g, c), sqrt(S2), 0);
    CHECK("dot_", a_real_dot_(n, g, c, s, 1), D, 1);
    CHECK("dot_", a_real_dot_(n, s, 1, g, c), D, 1);
    CHECK("dot_", a_real_dot_(n, g, c, g, c), S2, 1);
    VF_COUNT("giant-stride-reductions");
    /* copy_: giant stride as the source, then as the destination */
    for (size_t j = 0; j < 5; ++j) { t[j] = (a_real)-777; }
    a_real_copy_(n, t, 1, g, c);
    ++vf.evals;
    for (size_t j = 0; j < n; ++j)
    {
        if ((double)t[j] != v[j]) { vf_viol("real/copy_/stride-of-2^32-bytes-and-more", "a_real_copy_(n=%zu, dst stride 1, src stride %zu): dst[%zu] = %g, src element = %g", n, c, j, (double)t[j], v[j]); break; }
    }
    if (n < 5 && (double)t[n] != -777) { vf_viol("real/copy_/stride-of-2^32-bytes-and-more", "a_real_copy_ wrote dst[%zu] beyond n=%zu", n, n); }
    a_real_copy_(n, h, c, s, 1);
    ++vf.evals;
    for (size_t j = 0; j < n; ++j)
    {
        if ((double)h[j * c] != w[j]) { vf_viol("real/copy_/stride-of-2^32-bytes-and-more", "a_real_copy_(n=%zu, dst stride %zu, src stride 1): dst element %zu = %g, src[%zu] = %g", n, c, j, (double)h[j * c], j, w[j]); break; }
    }
    /* swap_: g (values v) <-> s (values w) */
    a_real_swap_(n, g, c, s, 1);
    ++vf.evals;
    for (size_t j = 0; j < n; ++j)
    {
        if ((double)g[j * c] != w[j] || (double)s[j] != v[j])
        {
            vf_viol("real/swap_/stride-of-2^32-bytes-and-more", "a_real_swap_(n=%zu, stride %zu, stride 1): element %zu holds (%g, %g) instead of (%g, %g)", n, c, j, (double)g[j * c], (double)s[j], w[j], v[j]);
            break;
        }
    }
    VF_COUNT("giant-stride-copy-swap");
    vf_distinct(vf_hash64(0x1111, (uint64_t)si));
    if (vf_want_sample()) { vf_sample("n=%zu elements %zu bytes apart: sum_/sum1_/sum2_/dot_ exact, mean_/norm_ within 8 eps, copy_/swap_ element for element", n, c * sizeof(a_real)); }
    munmap(g, span * sizeof(a_real));
    munmap(h, span * sizeof(a_real));
}

static void count_case(int rt, vf_rng *r)
{
    size_t const n = ((size_t)1 << 32) + 5;
    size_t const marks[6] = {0, 7, (size_t)1 << 31, ((size_t)1 << 32) - 1, (size_t)1 << 32, n - 1};
    a_real *p = map_reals(n), *q = rt == 5 ? map_reals(n) : NULL, got;
    double v[6], w[6], S = 0, S1 = 0, S2 = 0, D = 0, want;
    char key[96];
    int exact = 1;
    if (!p || (rt == 5 && !q)) { VF_COUNT("giant-mapping-refused"); return; }
    for (int j = 0; j < 6; ++j)
    {
        v[j] = (double)(1 + (long)vf_below(r, 20)) * (vf_chance(r, 1, 2) ? -1 : 1);
        w[j] = (double)(1 + (long)vf_below(r, 20));
        p[marks[j]] = (a_real)v[j];
        if (q) { q[marks[j]] = (a_real)w[j]; }
        S += v[j]; S1 += fabs(v[j]); S2 += v[j] * v[j]; D += v[j] * w[j];
    }
    vf_log("a_real_%s over n = 2^32 + 5 contiguous elements (zero except at 0, 7, 2^31, 2^32-1, 2^32, 2^32+4)", RN[rt]);
    switch (rt)
    {
    case 0: got = a_real_sum(n, p); want = S; break;
    case 1: got = a_real_sum1(n, p); want = S1; break;
    case 2: got = a_real_sum2(n, p); want = S2; break;
    case 3: got = a_real_mean(n, p); want = S / (double)n; exact = 0; break;
    case 4: got = a_real_norm(n, p); want = sqrt(S2); exact = 0; break;
    case 5: got = a_real_dot(n, p, q); want = D; break;
    default: got = a_real_dot(n, p, p); want = S2; break;
    }
    ++vf.evals;
    vf_count_dyn("giant-count-reduction", 1);
    {
        char nm[64];
        snprintf(nm, sizeof nm, "giant-count-%s", RN[rt]);
        vf_count_dyn(nm, 1);
    }
    if (exact ? (double)got != want : (rt == 3 ? fabs((double)got - want) > 64 * (double)A_REAL_EPSILON * S1 / (double)n : !close_to(got, want)))
    {
        snprintf(key, sizeof key, "real/%s/length-beyond-2^32", RN[rt]);
        vf_viol(key, "a_real_%s(n = 2^32 + 5) = %.17g, the defining formula over the six non-zero elements gives %.17g", RN[rt], (double)got, want);
    }
    vf_distinct(vf_hash64(0x1112, (uint64_t)rt));
    if (vf_want_sample()) { vf_sample("a_real_%s over 2^32 + 5 elements = %.17g (six non-zero elements, three of them at or beyond index 2^32 - 1)", RN[rt], (double)got); }
    munmap(p, n * sizeof(a_real));
    if (q) { munmap(q, n * sizeof(a_real)); }
}

/* DENSE data at counts that no allocation can hold: one 4 MiB file (memfd) mapped read-only 512 times back to back gives a 2 GiB window of 2^28 reals that costs 4 MiB of memory.
   "Norms do not overflow ... when the true result is representable": with n components of magnitude w the plain sum of squares is n w^2, which leaves the range for
   w > sqrt(MAX / n) although the norm sqrt(n) w is far inside it - a bound on the COMPONENTS says nothing once the count is large (seeded change C11-N: plain squares when the largest
   magnitude is below 1e150; wrong only for more than 1.8e8 components). Components are +-w and +-w/2 in a fixed pattern, so the scaled squares are 1 and 1/4 and every partial sum
   is exact: the expected norm is w * sqrt(count(w) + count(w/2) / 4), judged to 8 eps. */
#include <sys/syscall.h>
static void dense_norm_case(vf_rng *r)
{
    size_t const chunk = (size_t)4 << 20, reps = 512, nper = chunk / sizeof(a_real), n = nper * reps;
    int const fd = (int)syscall(SYS_memfd_create, "vf-dense", 0);
    static int pass; /* two passes per case: just above the point where n w^2 leaves the range (factor 1.001 .. 1.2), and well above it (1.2 .. 8) */
    double const u = (pass++ & 1) ? vf_uniform(r, 1.2, 8) : 1 + vf_logu(r, -3, -0.7), w = sqrt((double)A_REAL_MAX / (double)n) * u;
    unsigned char *win;
    a_real *f, got, got2;
    double cw = 0, ch = 0, cw2 = 0, ch2 = 0, want, want2;
    if (fd < 0 || ftruncate(fd, (off_t)chunk) != 0) { VF_COUNT("giant-mapping-refused"); if (fd >= 0) { close(fd); } return; }
    f = (a_real *)mmap(NULL, chunk, PROT_READ | PROT_WRITE, MAP_SHARED, fd, 0);
    win = (unsigned char *)mmap(NULL, chunk * reps, PROT_NONE, MAP_PRIVATE | MAP_ANONYMOUS | MAP_NORESERVE, -1, 0);
    if (f == MAP_FAILED || win == MAP_FAILED) { VF_COUNT("giant-mapping-refused"); close(fd); return; }
    for (size_t i = 0; i < nper; ++i)
    {
        int const half = (i % 5) == 2, neg = (i % 3) == 1;
        f[i] = (a_real)((half ? w / 2 : w) * (neg ? -1 : 1));
        if (half) { ch += 1; } else { cw += 1; }
        if (i % 2 == 0) { if (half) { ch2 += 1; } else { cw2 += 1; } }
    }
    for (size_t k = 0; k < reps; ++k)
    {
        if (mmap(win + k * chunk, chunk, PROT_READ, MAP_SHARED | MAP_FIXED, fd, 0) == MAP_FAILED) { VF_COUNT("giant-mapping-refused"); munmap(win, chunk * reps); munmap(f, chunk); close(fd); return; }
    }
    want = w * sqrt((cw + ch / 4) * (double)reps);
    want2 = w * sqrt((cw2 + ch2 / 4) * (double)reps);
    vf_log("a_real_norm over n = 2^28 dense components of magnitude w and w/2, w = %a = %.3g * sqrt(MAX/n): n w^2 is not representable, the norm %a is", w, u, want);
    got = a_real_norm(n, (a_real const *)win);
    got2 = a_real_norm_(n / 2, (a_real const *)win, 2);
    ++vf.evals;
    vf_count_dyn("dense-norm-2^28-components-squares-sum-overflows", 1);
    if (!close_to(got, want)) { vf_viol("real/norm/dense-count-2^28", "a_real_norm(n = 2^28, components +-%a and +-%a) = %.17g, the norm is %.17g (representable; the plain sum of squares is not)", w, w / 2, (double)got, want); }
    if (!close_to(got2, want2)) { vf_viol("real/norm_/dense-count-2^27", "a_real_norm_(n = 2^27, stride 2, components +-%a and +-%a) = %.17g, the norm is %.17g", w, w / 2, (double)got2, want2); }
    vf_distinct(vf_hash64(0x1113, 0));
    munmap(win, chunk * reps);
    munmap(f, chunk);
    close(fd);
}

static void vf_case(uint64_t c, vf_rng *r)
{
    if (sizeof(a_real) != 8) { VF_COUNT("giant-configuration-is-for-the-double-build"); return; }
    if (c < (uint64_t)NSTRIDE) { strided_case((int)c, r); return; }
    c -= NSTRIDE;
    if (c == 0) { dense_norm_case(r); dense_norm_case(r); return; }
    c -= 1;
    if (!vf.tier) { c = (c * 3 + vf.seed) % NROUT; } /* quick: two routines chosen by the seed */
    count_case((int)c, r);
}
