/* C15, coefficient vectors longer than 2^32 (extra configuration "giant", double build, WITHOUT sanitizers for speed).
 *
 * "Polynomial evaluation in either coefficient order equals the Horner value of the polynomial it denotes ... for all polynomial
 * degrees/coefficient vectors": the coefficient count is a_size.  One case = one routine (a_poly_eval, a_poly_evar) x one
 * argument (+1, -1) on 2^32 + 5 coefficients - 32 GiB of address space that reads the shared zero page except at six marked
 * coefficients on both sides of index 2^32.  At x = +-1 the value of the polynomial is the (alternating) sum of the marked
 * coefficients, exact in double: a count or an index kept in 32 bits loses the coefficients at and beyond 2^32 (or all but the
 * last five), and the sign at x = -1 depends on the parity of the true index.  One pass costs 6-7 s: the quick tier runs two of
 * the four combinations (chosen by the seed), the thorough tier all four.
 */
#define VF_PROP "C15"
#include "vf_common.h"
#include "a/poly.h"
#include <sys/mman.h>

#define NCOMB 4
static uint64_t vf_ncases(int tier) { return tier ? NCOMB : 2; }

static void vf_case(uint64_t c, vf_rng *r)
{
    size_t const n = ((size_t)1 << 32) + 5;
    size_t const marks[6] = {0, 7, (size_t)1 << 31, ((size_t)1 << 32) - 1, (size_t)1 << 32, n - 1};
    int comb, reversed, neg;
    double v[6], want = 0, x;
    a_real *p, got;
    if (sizeof(a_real) != 8) { VF_COUNT("giant-configuration-is-for-the-double-build"); return; }
    comb = vf.tier ? (int)c : (int)((c * 2 + 1 + vf.seed) % NCOMB);
    reversed = comb & 1;
    neg = comb >> 1 & 1;
    x = neg ? -1.0 : 1.0;
    p = (a_real *)mmap(NULL, n * sizeof(a_real), PROT_READ | PROT_WRITE, MAP_PRIVATE | MAP_ANONYMOUS | MAP_NORESERVE, -1, 0);
    if (p == MAP_FAILED) { VF_COUNT("giant-mapping-refused"); return; }
    for (int j = 0; j < 6; ++j)
    {
        /* a_poly_eval: a[k] is the coefficient of x^k; a_poly_evar: a[k] is the coefficient of x^(n-1-k) */
        size_t const power = reversed ? n - 1 - marks[j] : marks[j];
        v[j] = (double)(1 + (long)vf_below(r, 50)) * (vf_chance(r, 1, 2) ? -1 : 1);
        p[marks[j]] = (a_real)v[j];
        want += (neg && (power & 1)) ? -v[j] : v[j];
    }
    vf_log("a_poly_%s over 2^32 + 5 coefficients (zero except at 0, 7, 2^31, 2^32-1, 2^32, 2^32+4), x = %g", reversed ? "evar" : "eval", x);
    got = reversed ? a_poly_evar(p, n, (a_real)x) : a_poly_eval(p, n, (a_real)x);
    ++vf.evals;
    vf_count_dyn("giant-coefficient-vector", 1);
    if ((double)got != want)
    {
        char key[96];
        snprintf(key, sizeof key, "poly_%s/coefficient-count-beyond-2^32/ne-polynomial-value", reversed ? "evar" : "eval");
        vf_viol(key, "a_poly_%s(a, 2^32 + 5, %g) = %.17g, the polynomial's value (six non-zero coefficients) is %.17g", reversed ? "evar" : "eval", x, (double)got, want);
    }
    vf_distinct(vf_hash64(0x1515, (uint64_t)comb));
    if (vf_want_sample()) { vf_sample("a_poly_%s over 2^32 + 5 coefficients at x = %g = %.17g = the %ssum of the six non-zero coefficients", reversed ? "evar" : "eval", x, (double)got, neg ? "alternating " : ""); }
    munmap(p, n * sizeof(a_real));
}
