    // ======================================================================================================
    // wrapper-equivalence monitor by twin execution (C20). This text is spliced by bin/c20.py into the child
    // module `verif_probe` that is appended to a verbatim copy of /repo/src/lib.rs. The generated part
    // (trait Fields + one impl per #[repr(C)] struct, fn raw, the vp_* re-declarations of every extern item
    // and the vft_* C shims) precedes it.
    //
    // One object per history. Every step: snapshot object + registered caller arrays, apply the binding's
    // wrapper, record (result, object fields, arrays); restore; apply the extern "C" function directly with the
    // arguments the documentation implies; record again; compare bit for bit (all NaNs equal).
    // ======================================================================================================
    use self::vstd::collections::BTreeMap;
    use core::cmp::Ordering as VOrd;

    pub type Rz = [u64; 2];
    pub fn canon(x: real) -> u64 { if x != x { 0x7ff8_0000_dead_0000u64 } else { x.to_bits() as u64 } }
    pub fn rb(x: real) -> Rz { [canon(x), 0] }
    pub fn ru(x: u64) -> Rz { [x, 0] }

    pub struct Nil;
    impl Fields for Nil { unsafe fn fb(_p: *const Self, _out: &mut Vec<u64>) {} }

    // ---------------------------------------------------------------- deterministic PRNG (splitmix64)
    pub struct Rng(pub u64);
    impl Rng {
        pub fn next(&mut self) -> u64 {
            self.0 = self.0.wrapping_add(0x9E3779B97F4A7C15);
            let mut z = self.0;
            z = (z ^ (z >> 30)).wrapping_mul(0xBF58476D1CE4E5B9);
            z = (z ^ (z >> 27)).wrapping_mul(0x94D049BB133111EB);
            z ^ (z >> 31)
        }
        pub fn below(&mut self, n: u64) -> u64 { self.next() % n }
        pub fn range(&mut self, lo: i64, hi: i64) -> i64 { lo + (self.next() % ((hi - lo + 1) as u64)) as i64 }
        pub fn chance(&mut self, a: u64, b: u64) -> bool { self.below(b) < a }
        pub fn grid(&mut self) -> real { self.range(-64, 64) as real / 8.0 }
        pub fn val(&mut self) -> real {
            match self.below(10) {
                0..=3 => self.grid(),
                4..=7 => {
                    let mant = (self.next() >> 11) as f64 / (1u64 << 53) as f64;
                    let e = self.range(-6, 6) as i32;
                    let s: f64 = if self.chance(1, 2) { -1.0 } else { 1.0 };
                    (s * (0.5 + mant) * (2.0f64).powi(e)) as real
                }
                8 => self.range(-9, 9) as real,
                _ => 0.0,
            }
        }
        pub fn pos(&mut self) -> real { let v = self.val(); let a = if v < 0.0 { -v } else { v }; if a == 0.0 { 0.5 } else { a } }
        pub fn wild(&mut self) -> real {
            match self.below(24) {
                0 => real::INFINITY, 1 => -real::INFINITY, 2 => real::NAN, 3 => -0.0, 4 => real::MAX, 5 => real::MIN_POSITIVE,
                6 => -real::MAX, 7 => real::EPSILON,
                _ => self.val(),
            }
        }
        pub fn bytes(&mut self, n: usize) -> Vec<u8> { let mut v = Vec::with_capacity(n); for _ in 0..n { v.push(self.next() as u8); } v }
        pub fn reals(&mut self, n: usize) -> Vec<real> { let mut v = Vec::with_capacity(n); for _ in 0..n { v.push(self.val()); } v }
    }
    fn mix(a: u64, b: u64, c: u64) -> u64 { let mut r = Rng(a ^ b.wrapping_mul(0xD6E8FEB86659FD93) ^ c.wrapping_mul(0xA0761D6478BD642F)); r.next(); r.next() }

    // ---------------------------------------------------------------- where are we (for the sanitizer / panic hooks)
    pub static mut G_NAME: &str = "-";
    pub static mut G_CFN: &str = "-";
    pub static mut G_STRUCT: &str = "-";
    pub static mut G_HIST: usize = 0;
    pub static mut G_STEP: usize = 0;
    pub static mut G_PHASE: &str = "-";
    pub static mut G_ACTIVE: bool = false;
    pub fn died(how: &str) {
        unsafe {
            if G_ACTIVE {
                println!("TWDIED {} {} {} struct={} history={} step={} phase={}", G_NAME, G_CFN, how, G_STRUCT, G_HIST, G_STEP, G_PHASE);
            }
        }
    }
    #[no_mangle] pub extern "C" fn __asan_on_error() { died("asan"); }
    #[no_mangle] pub extern "C" fn __ubsan_on_report() { died("ubsan"); }

    // ---------------------------------------------------------------- registered caller-provided memory
    pub struct Tw { regs: Vec<(*mut u8, usize)>, snap: Vec<u8> }
    impl Tw {
        pub fn new() -> Self { Tw { regs: Vec::new(), snap: Vec::new() } }
        pub fn add<T>(&mut self, p: *mut T, n: usize) { self.regs.push((p as *mut u8, n * core::mem::size_of::<T>())); }
        pub fn addv<T>(&mut self, v: &mut Vec<T>) { let n = v.len(); self.add(v.as_mut_ptr(), n); }
        pub unsafe fn grab(&self) -> Vec<u8> {
            let mut out: Vec<u8> = Vec::new();
            for &(p, n) in self.regs.iter() { out.extend_from_slice(core::slice::from_raw_parts(p as *const u8, n)); }
            out
        }
        pub unsafe fn save(&mut self) { self.snap = self.grab(); }
        pub unsafe fn restore(&self) {
            let mut k = 0usize;
            for &(p, n) in self.regs.iter() { core::ptr::copy_nonoverlapping(self.snap.as_ptr().add(k), p, n); k += n; }
        }
    }

    // ---------------------------------------------------------------- the monitor
    pub struct Mon {
        pub seed: u64, pub verbose: bool, pub log: Vec<String>, pub counts: BTreeMap<(&'static str, &'static str), u64>,
        pub printed: BTreeMap<String, u64>, pub sname: &'static str, pub hist: usize, pub step: usize, pub nviol: u64,
        pub pending: Option<(String, String)>, pub reported: bool,
    }
    impl Mon {
        pub fn new(seed: u64) -> Self {
            let mut c = BTreeMap::new();
            for &(n, f) in COVER.iter() { c.insert((n, f), 0u64); }
            Mon { seed, verbose: false, log: Vec::new(), counts: c, printed: BTreeMap::new(), sname: "-", hist: 0, step: 0, nviol: 0, pending: None, reported: false }
        }
        pub fn begin(&mut self, name: &'static str, cfn: &'static str) {
            unsafe { G_NAME = name; G_CFN = cfn; G_STEP = self.step; }
            if !self.verbose {
                match self.counts.get_mut(&(name, cfn)) {
                    Some(c) => { *c += 1; }
                    None => { println!("TWX unregistered {} {}", name, cfn); self.counts.insert((name, cfn), 1); }
                }
            }
        }
        pub fn note(&mut self, s: String) { if self.verbose { self.log.push(s); } }
        pub fn viol(&mut self, key: String, msg: String) {
            if !self.verbose { if self.pending.is_none() { self.pending = Some((key, msg)); } return; }
            self.emit(key, msg);
        }
        fn emit(&mut self, key: String, msg: String) {
            self.reported = true;
            self.nviol += 1;
            let c = self.printed.entry(key.clone()).or_insert(0);
            *c += 1;
            if *c <= 3 {
                println!("TWV {} | {} history {} (seed {}) step {}: {} | sequence: {}", key, self.sname, self.hist, self.seed, self.step, msg, self.log.join(" -> "));
            }
        }
        pub fn judge(&mut self, name: &'static str, cfn: &'static str, r1: Rz, r2: Rz, s1: &Vec<u64>, s2: &Vec<u64>, b1: &Vec<u8>, b2: &Vec<u8>) -> bool {
            let mut ok = true;
            if r1 != r2 {
                self.viol(format!("api/{}/result-differs-from-{}", name, cfn),
                          format!("the wrapper returned {:#x}/{:#x}, the direct call of {} returned {:#x}/{:#x} (real as {:e} vs {:e})", r1[0], r1[1], cfn, r2[0], r2[1], unbits(r1[0]), unbits(r2[0])));
                ok = false;
            }
            if s1 != s2 || b1 != b2 {
                let mut what = String::new();
                if s1 != s2 {
                    let k = (0..s1.len().min(s2.len())).find(|&i| s1[i] != s2[i]).unwrap_or(s1.len().min(s2.len()));
                    what.push_str(&format!("object word #{} (fields in declaration order, 8 bytes per word for non-real fields): after the wrapper {:#x} ({:e}), after {} {:#x} ({:e}); ", k,
                                           s1.get(k).cloned().unwrap_or(0), unbits(s1.get(k).cloned().unwrap_or(0)), cfn, s2.get(k).cloned().unwrap_or(0), unbits(s2.get(k).cloned().unwrap_or(0))));
                }
                if b1 != b2 {
                    let k = (0..b1.len().min(b2.len())).find(|&i| b1[i] != b2[i]).unwrap_or(0);
                    what.push_str(&format!("caller-provided arrays differ first at byte {} of the registered regions ({:#x} vs {:#x})", k, b1.get(k).cloned().unwrap_or(0), b2.get(k).cloned().unwrap_or(0)));
                }
                self.viol(format!("api/{}/state-differs-from-{}", name, cfn), what);
                ok = false;
            }
            self.step += 1;
            ok
        }
        pub fn report(&self) {
            for (&(n, f), &c) in self.counts.iter() { println!("TW {} {} {}", n, c, f); }
            println!("TWEND {}", self.nviol);
        }
    }
    fn unbits(x: u64) -> f64 { if core::mem::size_of::<real>() == 4 { f32::from_bits(x as u32) as f64 } else { f64::from_bits(x) } }

    pub unsafe fn drive(m: &mut Mon, sid: u64, sname: &'static str, n: usize, f: unsafe fn(&mut Mon, &mut Rng) -> bool) {
        G_STRUCT = sname;
        m.sname = sname;
        for h in 0..n {
            let seed = mix(m.seed, sid, h as u64);
            m.hist = h; m.step = 0; m.verbose = false; m.pending = None; m.reported = false;
            G_HIST = h;
            let mut r = Rng(seed);
            if !f(m, &mut r) {
                // re-run the same history verbosely so that the report carries the whole call sequence
                m.verbose = true; m.step = 0; m.log.clear();
                let mut r = Rng(seed);
                f(m, &mut r);
                m.verbose = false;
                if !m.reported {
                    if let Some((k, msg)) = m.pending.take() { m.log.push(String::from("(not reproduced on the verbose re-run)")); m.verbose = true; m.emit(k, msg); m.verbose = false; }
                }
                m.log.clear();
            }
        }
        println!("TWH {} {}", sname, n);
    }

    // wrapper returned `&mut Self`: the observable result is "it is the object itself"
    macro_rules! selfp { ($e:expr, $o:ident) => {{ let __p = ($e) as *mut _ as usize; let __q = &$o as *const _ as usize; [(__p == __q) as u64, 0u64] }}; }

    macro_rules! twin {
        ($m:ident, $tw:ident, $o:ident, $name:expr, $cfn:expr, $desc:expr, $w:expr, $d:expr) => {{
            $m.begin($name, $cfn);
            if $m.verbose { let __s: String = $desc; $m.log.push(__s); }
            let __snap = core::ptr::read(&$o);
            $tw.save();
            G_PHASE = "wrapper";
            let __r1: Rz = $w;
            let mut __nok = true;
            if let Some(__f) = Fields::niche(&$o as *const _) {
                __nok = false;
                $m.viol(format!("abi/value/{}.{}/bit-pattern-invalid-for-the-rust-type", G_STRUCT, __f),
                        format!("after {} the field {} of the mirror holds a bit pattern that its declared Rust type does not admit (null in a fn-pointer / reference field, or a bool above 1): Rust reads it as the niche of the struct", $name, __f));
            }
            let mut __s1: Vec<u64> = Vec::new(); Fields::fb(&$o as *const _, &mut __s1);
            let __b1 = $tw.grab();
            core::ptr::write(&mut $o, __snap);
            $tw.restore();
            G_PHASE = "direct";
            let __r2: Rz = $d;
            let mut __s2: Vec<u64> = Vec::new(); Fields::fb(&$o as *const _, &mut __s2);
            let __b2 = $tw.grab();
            G_PHASE = "-";
            let __jok = $m.judge($name, $cfn, __r1, __r2, &__s1, &__s2, &__b1, &__b2);
            __jok && __nok
        }};
    }
    // constructors: the wrapper's value against the documented C initialisation sequence run on a 0x5C-filled slot
    macro_rules! twin_new {
        ($m:ident, $tw:ident, $S:ty, $name:expr, $cfn:expr, $desc:expr, $w:expr, |$slot:ident| $d:expr) => {{
            $m.begin($name, $cfn);
            if $m.verbose { let __s: String = $desc; $m.log.push(__s); }
            $tw.save();
            G_PHASE = "wrapper";
            let __o: $S = $w;
            let mut __s1: Vec<u64> = Vec::new(); Fields::fb(&__o as *const $S, &mut __s1);
            let __b1 = $tw.grab();
            $tw.restore();
            G_PHASE = "direct";
            let mut __u = core::mem::MaybeUninit::<$S>::uninit();
            core::ptr::write_bytes(__u.as_mut_ptr() as *mut u8, 0x5C, core::mem::size_of::<$S>());
            let $slot: *mut $S = __u.as_mut_ptr();
            $d;
            let mut __s2: Vec<u64> = Vec::new(); Fields::fb($slot as *const $S, &mut __s2);
            let __b2 = $tw.grab();
            G_PHASE = "-";
            let __ok = $m.judge($name, $cfn, [0, 0], [0, 0], &__s1, &__s2, &__b1, &__b2);
            (__o, __ok)
        }};
    }

    // ---------------------------------------------------------------- CRC: wrapper object vs (table, bit order) twin vs bitwise reference
    const PROBE: &[u8] = b"123456789";
    macro_rules! crc_hist {
        ($fname:ident, $S:ident, $T:ty, $W:expr, $new_msb:expr, $new_lsb:expr, $gen_msb:expr, $gen_lsb:expr, $eval:expr,
         $minit:ident, $linit:ident, $mfn:ident, $lfn:ident, $minit_s:expr, $linit_s:expr, $mfn_s:expr, $lfn_s:expr) => {
            unsafe fn $fname(m: &mut Mon, r: &mut Rng) -> bool {
                fn reference(msb: bool, poly: $T, block: &[u8], value: $T) -> $T {
                    let mut crc: $T = value;
                    if msb {
                        for &b in block { crc ^= (b as $T) << ($W - 8); for _ in 0..8 { let top = crc >> ($W - 1) != 0; crc = crc.wrapping_shl(1); if top { crc ^= poly; } } }
                    } else {
                        let rp: $T = poly.reverse_bits();
                        for &b in block { crc ^= b as $T; for _ in 0..8 { let low = crc & 1 != 0; crc >>= 1; if low { crc ^= rp; } } }
                    }
                    crc
                }
                unsafe fn direct(msb: bool, t: &[$T; 0x100], block: &[u8], value: $T) -> $T {
                    if msb { $mfn(t.as_ptr(), block.as_ptr(), block.len(), value) } else { $lfn(t.as_ptr(), block.as_ptr(), block.len(), value) }
                }
                // constructor
                let mut poly: $T = r.next() as $T;
                if r.chance(1, 4) { poly = [0x07u64, 0x8005, 0x04C11DB7, 0x42F0E1EBA9EA3693, 0x1021, 0x31][r.below(6) as usize] as $T; }
                let mut msb = r.chance(1, 2);
                let mut tt: [$T; 0x100] = [0x5C; 0x100];
                let (cname, cfn) = if msb { ($new_msb, $minit_s) } else { ($new_lsb, $linit_s) };
                m.begin(cname, cfn);
                m.note(format!("{}({:#x})", cname, poly));
                G_PHASE = "wrapper";
                let mut o: $S = if msb { $S::new_msb(poly) } else { $S::new_lsb(poly) };
                G_PHASE = "direct";
                if msb { $minit(tt.as_mut_ptr(), poly) } else { $linit(tt.as_mut_ptr(), poly) }
                G_PHASE = "-";
                if !crc_state(m, cname, cfn, &o.table[..] == &tt[..], o.eval(PROBE, 0) as u64, direct(msb, &tt, PROBE, 0) as u64, reference(msb, poly, PROBE, 0) as u64,
                              direct(!msb, &tt, PROBE, 0) as u64, $eval, if msb { $mfn_s } else { $lfn_s }) { return false; }
                let n = r.range(10, 40);
                for _ in 0..n {
                    match r.below(8) {
                        0 | 1 => {
                            poly = r.next() as $T;
                            msb = r.chance(1, 2);
                            let (name, cfn) = if msb { ($gen_msb, $minit_s) } else { ($gen_lsb, $linit_s) };
                            m.begin(name, cfn);
                            m.note(format!("{}({:#x})", name, poly));
                            G_PHASE = "wrapper";
                            let back = (if msb { o.gen_msb(poly) } else { o.gen_lsb(poly) }) as *mut $S as usize;
                            G_PHASE = "direct";
                            if msb { $minit(tt.as_mut_ptr(), poly) } else { $linit(tt.as_mut_ptr(), poly) }
                            G_PHASE = "-";
                            if back != &o as *const $S as usize {
                                m.viol(format!("api/{}/result-differs-from-{}", name, cfn), String::from("the returned reference is not the object itself"));
                                return false;
                            }
                            if !crc_state(m, name, cfn, &o.table[..] == &tt[..], o.eval(PROBE, 0) as u64, direct(msb, &tt, PROBE, 0) as u64, reference(msb, poly, PROBE, 0) as u64,
                                          direct(!msb, &tt, PROBE, 0) as u64, $eval, if msb { $mfn_s } else { $lfn_s }) { return false; }
                        }
                        _ => {
                            let len = if r.chance(1, 8) { 0 } else { r.range(1, 64) as usize };
                            let off = r.below(4) as usize;
                            let buf = r.bytes(off + len);
                            let block = &buf[off..];
                            let value: $T = if r.chance(1, 3) { 0 } else if r.chance(1, 2) { !0 } else { r.next() as $T };
                            let cfn = if msb { $mfn_s } else { $lfn_s };
                            m.begin($eval, cfn);
                            m.note(format!("eval(len={}, value={:#x})", len, value));
                            G_PHASE = "wrapper";
                            let r1 = o.eval(block, value);
                            G_PHASE = "direct";
                            let r2 = direct(msb, &tt, block, value);
                            G_PHASE = "-";
                            let r3 = reference(msb, poly, block, value);
                            let mut ok = true;
                            if r1 != r2 {
                                m.viol(format!("api/{}/result-differs-from-{}", $eval, cfn), format!("the wrapper returned {:#x}, {} on the twin table returned {:#x} (bitwise reference {:#x})", r1, cfn, r2, r3));
                                ok = false;
                            }
                            if r1 != r3 {
                                m.viol(format!("api/{}/result-differs-from-bitwise-reference", $eval), format!("the wrapper returned {:#x}, the bitwise {} reference for polynomial {:#x} gives {:#x} ({} gives {:#x})", r1, if msb { "MSB-first" } else { "LSB-first" }, poly, r3, cfn, r2));
                                ok = false;
                            }
                            if &o.table[..] != &tt[..] { m.viol(format!("api/{}/state-differs-from-{}", $eval, cfn), String::from("the table changed")); ok = false; }
                            m.step += 1;
                            if !ok { return false; }
                        }
                    }
                }
                true
            }
        };
    }
    fn crc_state(m: &mut Mon, name: &'static str, cfn: &'static str, table_same: bool, w: u64, d: u64, rf: u64, other: u64, ename: &'static str, efn: &'static str) -> bool {
        let mut ok = true;
        if !table_same { m.viol(format!("api/{}/state-differs-from-{}", name, cfn), String::from("the wrapper's table is not the table the C function generates")); ok = false; }
        else if w != d || w != rf {
            if w == other && other != d {
                // the object answers like the C function of the OTHER bit order run over this table: the constructor/generator left the wrong function in place
                m.viol(format!("api/{}/state-differs-from-{}", name, cfn),
                       format!("tables agree, but eval(\"123456789\", 0) on the object now gives {:#x}, which is what the C function of the other bit order returns over this table; the C function for this bit order gives {:#x}, the bitwise reference {:#x}", w, d, rf));
            } else {
                m.viol(format!("api/{}/result-differs-from-{}", ename, efn),
                       format!("right after {} the probe eval(\"123456789\", 0) gives {:#x}; {} over the same table gives {:#x}, the bitwise reference {:#x}", name, w, efn, d, rf));
            }
            ok = false;
        }
        m.step += 1;
        ok
    }
    crc_hist!(h_crc8, crc8, u8, 8, "crc8::new_msb", "crc8::new_lsb", "crc8::gen_msb", "crc8::gen_lsb", "crc8::eval",
              vp_a_crc8m_init, vp_a_crc8l_init, vp_a_crc8, vp_a_crc8, "a_crc8m_init", "a_crc8l_init", "a_crc8", "a_crc8");
    crc_hist!(h_crc16, crc16, u16, 16, "crc16::new_msb", "crc16::new_lsb", "crc16::gen_msb", "crc16::gen_lsb", "crc16::eval",
              vp_a_crc16m_init, vp_a_crc16l_init, vp_a_crc16m, vp_a_crc16l, "a_crc16m_init", "a_crc16l_init", "a_crc16m", "a_crc16l");
    crc_hist!(h_crc32, crc32, u32, 32, "crc32::new_msb", "crc32::new_lsb", "crc32::gen_msb", "crc32::gen_lsb", "crc32::eval",
              vp_a_crc32m_init, vp_a_crc32l_init, vp_a_crc32m, vp_a_crc32l, "a_crc32m_init", "a_crc32l_init", "a_crc32m", "a_crc32l");
    crc_hist!(h_crc64, crc64, u64, 64, "crc64::new_msb", "crc64::new_lsb", "crc64::gen_msb", "crc64::gen_lsb", "crc64::eval",
              vp_a_crc64m_init, vp_a_crc64l_init, vp_a_crc64m, vp_a_crc64l, "a_crc64m_init", "a_crc64l_init", "a_crc64m", "a_crc64l");

    // ---------------------------------------------------------------- free functions, mf::*, constants
    unsafe fn h_free(m: &mut Mon, r: &mut Rng) -> bool {
        let mut tw = Tw::new();
        let mut nil = Nil;
        for _ in 0..4 {
            let x32 = if r.chance(1, 4) { [0u32, 1, 24, 25, u32::MAX, u32::MAX - 1][r.below(6) as usize] } else { (r.next() >> r.below(32)) as u32 };
            let x64 = if r.chance(1, 4) { [0u64, 1, 1848, u64::MAX, 1 << 32][r.below(5) as usize] } else { r.next() >> r.below(64) };
            if !twin!(m, tw, nil, "u32_sqrt", "a_u32_sqrt", format!("u32_sqrt({})", x32), ru(u32_sqrt(x32) as u64), ru(vp_a_u32_sqrt(x32) as u64)) { return false; }
            if !twin!(m, tw, nil, "u64_sqrt", "a_u64_sqrt", format!("u64_sqrt({})", x64), ru(u64_sqrt(x64) as u64), ru(vp_a_u64_sqrt(x64) as u64)) { return false; }
            let f = r.wild() as f32; let d = r.wild() as f64;
            if !twin!(m, tw, nil, "f32_rsqrt", "a_f32_rsqrt", format!("f32_rsqrt({:e})", f), ru(f32_rsqrt(f).to_bits() as u64), ru(vp_a_f32_rsqrt(f).to_bits() as u64)) { return false; }
            if !twin!(m, tw, nil, "f64_rsqrt", "a_f64_rsqrt", format!("f64_rsqrt({:e})", d), ru(f64_rsqrt(d).to_bits()), ru(vp_a_f64_rsqrt(d).to_bits())) { return false; }
            let n = r.below(13) as usize;
            let mut v: Vec<real> = Vec::new();
            for _ in 0..n { v.push(if r.chance(1, 10) { r.wild() } else { r.val() }); }
            if !twin!(m, tw, nil, "real_sum", "a_real_sum", format!("real_sum({:?})", v), rb(real_sum(&v)), rb(vp_a_real_sum(v.len(), v.as_ptr()))) { return false; }
            if !twin!(m, tw, nil, "real_sum1", "a_real_sum1", format!("real_sum1({:?})", v), rb(real_sum1(&v)), rb(vp_a_real_sum1(v.len(), v.as_ptr()))) { return false; }
            if !twin!(m, tw, nil, "real_sum2", "a_real_sum2", format!("real_sum2({:?})", v), rb(real_sum2(&v)), rb(vp_a_real_sum2(v.len(), v.as_ptr()))) { return false; }
            if !twin!(m, tw, nil, "real_mean", "a_real_mean", format!("real_mean({:?})", v), rb(real_mean(&v)), rb(vp_a_real_mean(v.len(), v.as_ptr()))) { return false; }
            let bl = r.below(40) as usize; let b = r.bytes(bl); let hv = if r.chance(1, 3) { 0 } else { r.next() as u32 };
            if !twin!(m, tw, nil, "hash_bkdr", "a_hash_bkdr_", format!("hash_bkdr({:?}, {})", b, hv), ru(hash_bkdr(&b, hv) as u64), ru(vp_a_hash_bkdr_(b.as_ptr(), b.len(), hv) as u64)) { return false; }
            if !twin!(m, tw, nil, "hash_sdbm", "a_hash_sdbm_", format!("hash_sdbm({:?}, {})", b, hv), ru(hash_sdbm(&b, hv) as u64), ru(vp_a_hash_sdbm_(b.as_ptr(), b.len(), hv) as u64)) { return false; }
        }
        true
    }
    unsafe fn h_mf(m: &mut Mon, r: &mut Rng) -> bool {
        let mut tw = Tw::new();
        let mut nil = Nil;
        for _ in 0..4 {
            let x = if r.chance(1, 8) { r.wild() } else { r.val() };
            let (a, b, c, d) = (r.val(), r.val(), r.val(), r.val());
            // sorted variant for the piecewise functions so that the interior branches are reached as well
            let mut s = [a, b, c, d]; for i in 0..4 { for j in i + 1..4 { if s[j] < s[i] { let t = s[i]; s[i] = s[j]; s[j] = t; } } }
            let (p, q, u, v) = if r.chance(1, 2) { (s[0], s[1], s[2], s[3]) } else { (a, b, c, d) };
            if !twin!(m, tw, nil, "mf::gauss", "a_mf_gauss", format!("mf::gauss({:e},{:e},{:e})", x, a, b), rb(mf::gauss(x, a, b)), rb(vp_a_mf_gauss(x, a, b))) { return false; }
            if !twin!(m, tw, nil, "mf::gauss2", "a_mf_gauss2", format!("mf::gauss2({:e},{:e},{:e},{:e},{:e})", x, a, b, c, d), rb(mf::gauss2(x, a, b, c, d)), rb(vp_a_mf_gauss2(x, a, b, c, d))) { return false; }
            if !twin!(m, tw, nil, "mf::gbell", "a_mf_gbell", format!("mf::gbell({:e},{:e},{:e},{:e})", x, a, b, c), rb(mf::gbell(x, a, b, c)), rb(vp_a_mf_gbell(x, a, b, c))) { return false; }
            if !twin!(m, tw, nil, "mf::sig", "a_mf_sig", format!("mf::sig({:e},{:e},{:e})", x, a, b), rb(mf::sig(x, a, b)), rb(vp_a_mf_sig(x, a, b))) { return false; }
            if !twin!(m, tw, nil, "mf::dsig", "a_mf_dsig", format!("mf::dsig({:e},{:e},{:e},{:e},{:e})", x, a, b, c, d), rb(mf::dsig(x, a, b, c, d)), rb(vp_a_mf_dsig(x, a, b, c, d))) { return false; }
            if !twin!(m, tw, nil, "mf::psig", "a_mf_psig", format!("mf::psig({:e},{:e},{:e},{:e},{:e})", x, a, b, c, d), rb(mf::psig(x, a, b, c, d)), rb(vp_a_mf_psig(x, a, b, c, d))) { return false; }
            if !twin!(m, tw, nil, "mf::trap", "a_mf_trap", format!("mf::trap({:e},{:e},{:e},{:e},{:e})", x, p, q, u, v), rb(mf::trap(x, p, q, u, v)), rb(vp_a_mf_trap(x, p, q, u, v))) { return false; }
            if !twin!(m, tw, nil, "mf::tri", "a_mf_tri", format!("mf::tri({:e},{:e},{:e},{:e})", x, p, q, u), rb(mf::tri(x, p, q, u)), rb(vp_a_mf_tri(x, p, q, u))) { return false; }
            if !twin!(m, tw, nil, "mf::lins", "a_mf_lins", format!("mf::lins({:e},{:e},{:e})", x, p, q), rb(mf::lins(x, p, q)), rb(vp_a_mf_lins(x, p, q))) { return false; }
            if !twin!(m, tw, nil, "mf::linz", "a_mf_linz", format!("mf::linz({:e},{:e},{:e})", x, p, q), rb(mf::linz(x, p, q)), rb(vp_a_mf_linz(x, p, q))) { return false; }
            if !twin!(m, tw, nil, "mf::s", "a_mf_s", format!("mf::s({:e},{:e},{:e})", x, p, q), rb(mf::s(x, p, q)), rb(vp_a_mf_s(x, p, q))) { return false; }
            if !twin!(m, tw, nil, "mf::z", "a_mf_z", format!("mf::z({:e},{:e},{:e})", x, p, q), rb(mf::z(x, p, q)), rb(vp_a_mf_z(x, p, q))) { return false; }
            if !twin!(m, tw, nil, "mf::pi", "a_mf_pi", format!("mf::pi({:e},{:e},{:e},{:e},{:e})", x, p, q, u, v), rb(mf::pi(x, p, q, u, v)), rb(vp_a_mf_pi(x, p, q, u, v))) { return false; }
        }
        true
    }
    unsafe fn h_const(m: &mut Mon, _r: &mut Rng) -> bool {
        let mut tw = Tw::new();
        let mut nil = Nil;
        let mut ok = true;
        macro_rules! k { ($name:expr, $cfn:expr, $v:expr, $i:expr) => { ok &= twin!(m, tw, nil, $name, $cfn, format!("{}", $name), ru($v as i64 as u64), ru(vft_const($i) as i64 as u64)); }; }
        k!("mf::NUL", "A_MF_NUL", mf::NUL, 0); k!("mf::GAUSS", "A_MF_GAUSS", mf::GAUSS, 1); k!("mf::GAUSS2", "A_MF_GAUSS2", mf::GAUSS2, 2);
        k!("mf::GBELL", "A_MF_GBELL", mf::GBELL, 3); k!("mf::SIG", "A_MF_SIG", mf::SIG, 4); k!("mf::DSIG", "A_MF_DSIG", mf::DSIG, 5);
        k!("mf::PSIG", "A_MF_PSIG", mf::PSIG, 6); k!("mf::TRAP", "A_MF_TRAP", mf::TRAP, 7); k!("mf::TRI", "A_MF_TRI", mf::TRI, 8);
        k!("mf::LINS", "A_MF_LINS", mf::LINS, 9); k!("mf::LINZ", "A_MF_LINZ", mf::LINZ, 10); k!("mf::S", "A_MF_S", mf::S, 11);
        k!("mf::Z", "A_MF_Z", mf::Z, 12); k!("mf::PI", "A_MF_PI", mf::PI, 13);
        k!("fuzzy::CAP", "A_PID_FUZZY_CAP", fuzzy::CAP, 20); k!("fuzzy::CAP_ALGEBRA", "A_PID_FUZZY_CAP_ALGEBRA", fuzzy::CAP_ALGEBRA, 21);
        k!("fuzzy::CAP_BOUNDED", "A_PID_FUZZY_CAP_BOUNDED", fuzzy::CAP_BOUNDED, 22); k!("fuzzy::CUP", "A_PID_FUZZY_CUP", fuzzy::CUP, 23);
        k!("fuzzy::CUP_ALGEBRA", "A_PID_FUZZY_CUP_ALGEBRA", fuzzy::CUP_ALGEBRA, 24); k!("fuzzy::CUP_BOUNDED", "A_PID_FUZZY_CUP_BOUNDED", fuzzy::CUP_BOUNDED, 25);
        k!("fuzzy::EQU", "A_PID_FUZZY_EQU", fuzzy::EQU, 26);
        ok
    }

    // ---------------------------------------------------------------- hpf / lpf (the binding re-implements the inline C functions)
    unsafe fn h_hpf(m: &mut Mon, r: &mut Rng) -> bool {
        let mut tw = Tw::new();
        let (fc, ts) = (r.pos(), r.pos() / 64.0);
        let (mut o, ok) = twin_new!(m, tw, hpf, "hpf::new", "a_hpf_init", format!("hpf::new({:e},{:e})", fc, ts), hpf::new(fc, ts), |s| vft_hpf_new(s as *mut u8, fc, ts));
        if !ok { return false; }
        for _ in 0..r.range(10, 40) {
            let (fc, ts, x) = (if r.chance(1, 6) { r.val() } else { r.pos() }, if r.chance(1, 6) { r.val() } else { r.pos() / 64.0 }, r.val());
            let ok = match r.below(8) {
                0 => twin!(m, tw, o, "hpf::gen", "a_hpf_gen", format!("gen({:e},{:e})", fc, ts), selfp!(o.gen(fc, ts), o), { vft_hpf_gen(&mut o as *mut hpf as *mut u8, fc, ts); [1, 0] }),
                1 => twin!(m, tw, o, "hpf::zero", "a_hpf_zero", String::from("zero()"), selfp!(o.zero(), o), { vft_hpf_zero(&mut o as *mut hpf as *mut u8); [1, 0] }),
                _ => twin!(m, tw, o, "hpf::iter", "a_hpf_iter", format!("iter({:e})", x), rb(o.iter(x)), rb(vft_hpf_iter(&mut o as *mut hpf as *mut u8, x))),
            };
            if !ok { return false; }
        }
        true
    }
    unsafe fn h_lpf(m: &mut Mon, r: &mut Rng) -> bool {
        let mut tw = Tw::new();
        let (fc, ts) = (r.pos(), r.pos() / 64.0);
        let (mut o, ok) = twin_new!(m, tw, lpf, "lpf::new", "a_lpf_init", format!("lpf::new({:e},{:e})", fc, ts), lpf::new(fc, ts), |s| vft_lpf_new(s as *mut u8, fc, ts));
        if !ok { return false; }
        for _ in 0..r.range(10, 40) {
            let (fc, ts, x) = (if r.chance(1, 6) { r.val() } else { r.pos() }, if r.chance(1, 6) { r.val() } else { r.pos() / 64.0 }, r.val());
            let ok = match r.below(8) {
                0 => twin!(m, tw, o, "lpf::gen", "a_lpf_gen", format!("gen({:e},{:e})", fc, ts), selfp!(o.gen(fc, ts), o), { vft_lpf_gen(&mut o as *mut lpf as *mut u8, fc, ts); [1, 0] }),
                1 => twin!(m, tw, o, "lpf::zero", "a_lpf_zero", String::from("zero()"), selfp!(o.zero(), o), { vft_lpf_zero(&mut o as *mut lpf as *mut u8); [1, 0] }),
                _ => twin!(m, tw, o, "lpf::iter", "a_lpf_iter", format!("iter({:e})", x), rb(o.iter(x)), rb(vft_lpf_iter(&mut o as *mut lpf as *mut u8, x))),
            };
            if !ok { return false; }
        }
        true
    }

    // ---------------------------------------------------------------- pid family
    fn limits(p: &mut pid, m: &mut Mon, r: &mut Rng) {
        if !r.chance(1, 4) {
            p.summax = r.pos() * 4.0; p.summin = -r.pos() * 4.0; p.outmax = r.pos() * 8.0; p.outmin = -r.pos() * 8.0;
        }
        m.note(format!("fields summax={:e} summin={:e} outmax={:e} outmin={:e}", p.summax, p.summin, p.outmax, p.outmin));
    }
    unsafe fn h_pid(m: &mut Mon, r: &mut Rng) -> bool {
        let mut tw = Tw::new();
        let (mut o, ok) = if r.chance(1, 2) {
            twin_new!(m, tw, pid, "pid::new", "a_pid_init", String::from("pid::new()"), pid::new(), |s| vft_pid_new(s as *mut u8))
        } else {
            twin_new!(m, tw, pid, "pid::default", "a_pid_init", String::from("pid::default()"), <pid as Default>::default(), |s| vft_pid_new(s as *mut u8))
        };
        if !ok { return false; }
        limits(&mut o, m, r);
        for _ in 0..r.range(10, 40) {
            let (s, f, g0, g1, g2) = (r.val(), r.val(), r.val(), r.pos(), r.val());
            let ok = match r.below(10) {
                0 => twin!(m, tw, o, "pid::set_kpid", "a_pid_set_kpid", format!("set_kpid({:e},{:e},{:e})", g0, g1, g2), selfp!(o.set_kpid(g0, g1, g2), o), { vp_a_pid_set_kpid(&mut o, g0, g1, g2); [1, 0] }),
                1 => twin!(m, tw, o, "pid::zero", "a_pid_zero", String::from("zero()"), selfp!(o.zero(), o), { vp_a_pid_zero(&mut o); [1, 0] }),
                2 | 3 => twin!(m, tw, o, "pid::run", "a_pid_run", format!("run({:e},{:e})", s, f), rb(o.run(s, f)), rb(vp_a_pid_run(&mut o, s, f))),
                4 | 5 | 6 => twin!(m, tw, o, "pid::pos", "a_pid_pos", format!("pos({:e},{:e})", s, f), rb(o.pos(s, f)), rb(vp_a_pid_pos(&mut o, s, f))),
                _ => twin!(m, tw, o, "pid::inc", "a_pid_inc", format!("inc({:e},{:e})", s, f), rb(o.inc(s, f)), rb(vp_a_pid_inc(&mut o, s, f))),
            };
            if !ok { return false; }
        }
        true
    }
    unsafe fn h_pid_neuro(m: &mut Mon, r: &mut Rng) -> bool {
        let mut tw = Tw::new();
        let (mut o, ok) = if r.chance(1, 2) {
            twin_new!(m, tw, pid_neuro, "pid_neuro::new", "a_pid_neuro_init", String::from("pid_neuro::new()"), pid_neuro::new(), |s| vft_pid_neuro_new(s as *mut u8))
        } else {
            twin_new!(m, tw, pid_neuro, "pid_neuro::default", "a_pid_neuro_init", String::from("pid_neuro::default()"), <pid_neuro as Default>::default(), |s| vft_pid_neuro_new(s as *mut u8))
        };
        if !ok { return false; }
        limits(&mut o.pid, m, r);
        for k in 0..r.range(10, 40) {
            let (s, f, g0, g1, g2, g3) = (r.val(), r.val(), r.pos(), r.pos(), r.pos(), r.pos());
            let op = if k == 0 { 0 } else if k == 1 { 1 } else { r.below(10) };
            let ok = match op {
                0 => twin!(m, tw, o, "pid_neuro::set_kpid", "a_pid_neuro_set_kpid", format!("set_kpid({:e},{:e},{:e},{:e})", g0, g1, g2, g3), selfp!(o.set_kpid(g0, g1, g2, g3), o), { vp_a_pid_neuro_set_kpid(&mut o, g0, g1, g2, g3); [1, 0] }),
                1 => twin!(m, tw, o, "pid_neuro::set_wpid", "a_pid_neuro_set_wpid", format!("set_wpid({:e},{:e},{:e})", g0, g1, g2), selfp!(o.set_wpid(g0, g1, g2), o), { vp_a_pid_neuro_set_wpid(&mut o, g0, g1, g2); [1, 0] }),
                2 => twin!(m, tw, o, "pid_neuro::zero", "a_pid_neuro_zero", String::from("zero()"), selfp!(o.zero(), o), { vp_a_pid_neuro_zero(&mut o); [1, 0] }),
                3 | 4 => twin!(m, tw, o, "pid_neuro::run", "a_pid_neuro_run", format!("run({:e},{:e})", s, f), rb(o.run(s, f)), rb(vp_a_pid_neuro_run(&mut o, s, f))),
                _ => twin!(m, tw, o, "pid_neuro::inc", "a_pid_neuro_inc", format!("inc({:e},{:e})", s, f), rb(o.inc(s, f)), rb(vp_a_pid_neuro_inc(&mut o, s, f))),
            };
            if !ok { return false; }
        }
        true
    }
    unsafe fn h_pid_fuzzy(m: &mut Mon, r: &mut Rng) -> bool {
        let mut tw = Tw::new();
        // valid rule base as in harness/h_cxxw.c: order n, triangular partition with unit spacing, integer rule tables
        let n = r.range(3, 7) as usize;
        let nf = r.range(2, 4) as usize; // at most two sets fire per axis
        let lo = -(((n - 1) / 2) as i64);
        let mut me: Vec<real> = Vec::new();
        for i in 0..n {
            let ci = (lo + i as i64) as real;
            me.push(mf::TRI as real); me.push(if i == 0 { ci } else { ci - 1.0 }); me.push(ci); me.push(if i + 1 == n { ci } else { ci + 1.0 });
        }
        let mut mec = me.clone();
        let mut mk: Vec<Vec<real>> = Vec::new();
        for _ in 0..6 { let mut t: Vec<real> = Vec::new(); for _ in 0..n * n { t.push(r.range(-9, 9) as real); } mk.push(t); }
        {
            let x = pid_fuzzy::BFUZZ(nf); // const fn of the binding against the C macro
            let mut nil = Nil;
            if !twin!(m, tw, nil, "pid_fuzzy::BFUZZ", "A_PID_FUZZY_BFUZZ", format!("pid_fuzzy::BFUZZ({})", nf), ru(x as u64), ru(vft_pid_fuzzy_bfuzz_size(nf) as u64)) { return false; }
        }
        let bsz = vft_pid_fuzzy_bfuzz_size(nf);
        let words = (bsz + 7) / 8 + 4;
        let mut bf1: Vec<u64> = vec![0x5C5C5C5C5C5C5C5Cu64; words];
        let mut bf2: Vec<u64> = vec![0x5C5C5C5C5C5C5C5Cu64; words];
        tw.addv(&mut bf1); tw.addv(&mut bf2); tw.addv(&mut me); tw.addv(&mut mec);
        let (mut o, ok) = if r.chance(1, 2) {
            twin_new!(m, tw, pid_fuzzy, "pid_fuzzy::new", "a_pid_fuzzy_init", String::from("pid_fuzzy::new()"), pid_fuzzy::new(), |s| vft_pid_fuzzy_new(s as *mut u8))
        } else {
            twin_new!(m, tw, pid_fuzzy, "pid_fuzzy::default", "a_pid_fuzzy_init", String::from("pid_fuzzy::default()"), <pid_fuzzy as Default>::default(), |s| vft_pid_fuzzy_new(s as *mut u8))
        };
        if !ok { return false; }
        limits(&mut o.pid, m, r);
        m.note(format!("rule base of order {}, scratch for {} fuzzy sets ({} bytes)", n, nf, bsz));
        let start = r.below(4);
        let total = 4 + r.range(10, 36);
        let mut cur_bf = 0;
        for k in 0..total {
            let s = r.range(8 * lo, -8 * lo) as real / 8.0;
            let f = if r.chance(1, 2) { 0.0 } else { r.range(-4, 4) as real / 8.0 };
            let (g0, g1, g2) = (r.pos(), r.pos(), r.pos());
            let opr = r.below(9) as c_uint;
            // the first four steps are the four setters in a rotated order (nothing is computed before the scratch block is set)
            let op = if k < 4 { [0u64, 5, 3, 1][((k as u64 + start) % 4) as usize] } else { r.below(14) };
            let ok = match op {
                0 => twin!(m, tw, o, "pid_fuzzy::set_opr", "a_pid_fuzzy_set_opr", format!("set_opr({})", opr), selfp!(o.set_opr(opr), o), { vp_a_pid_fuzzy_set_opr(&mut o, opr); [1, 0] }),
                1 => twin!(m, tw, o, "pid_fuzzy::set_kpid", "a_pid_fuzzy_set_kpid", format!("set_kpid({:e},{:e},{:e})", g0, g1, g2), selfp!(o.set_kpid(g0, g1, g2), o), { vp_a_pid_fuzzy_set_kpid(&mut o, g0, g1, g2); [1, 0] }),
                2 => twin!(m, tw, o, "pid_fuzzy::zero", "a_pid_fuzzy_zero", String::from("zero()"), selfp!(o.zero(), o), { vp_a_pid_fuzzy_zero(&mut o); [1, 0] }),
                3 => {
                    cur_bf = if k < 4 { 0 } else { 1 - cur_bf };
                    let p: *mut u8 = if cur_bf == 0 { bf1.as_mut_ptr() as *mut u8 } else { bf2.as_mut_ptr() as *mut u8 };
                    twin!(m, tw, o, "pid_fuzzy::set_bfuzz", "a_pid_fuzzy_set_bfuzz", format!("set_bfuzz(block{} of {} bytes, {})", cur_bf, bsz, nf),
                          selfp!(o.set_bfuzz(core::slice::from_raw_parts_mut(p, bsz), nf), o), { vp_a_pid_fuzzy_set_bfuzz(&mut o, p, nf); [1, 0] })
                }
                4 => {
                    if o.idx.is_null() { true } else {
                        twin!(m, tw, o, "pid_fuzzy::bfuzz", "a_pid_fuzzy_bfuzz", String::from("bfuzz()"),
                              { let sl = o.bfuzz(); [sl.as_mut_ptr() as usize as u64, sl.len() as u64] },
                              [vp_a_pid_fuzzy_bfuzz(&o) as usize as u64, vft_pid_fuzzy_bfuzz_size(o.nfuzz as usize) as u64])
                    }
                }
                5 => {
                    let (a, b, c) = if k < 4 { (0usize, 1usize, 2usize) } else { (r.below(6) as usize, r.below(6) as usize, r.below(6) as usize) };
                    let (pe, pec, pa, pb, pc) = (me.as_ptr(), mec.as_ptr(), mk[a].as_ptr(), mk[b].as_ptr(), mk[c].as_ptr());
                    let (le, lk) = (me.len(), n * n);
                    twin!(m, tw, o, "pid_fuzzy::set_rule", "a_pid_fuzzy_set_rule", format!("set_rule({}, me, mec, table{}, table{}, table{})", n, a, b, c),
                          selfp!(o.set_rule(n, core::slice::from_raw_parts(pe, le), core::slice::from_raw_parts(pec, le), core::slice::from_raw_parts(pa, lk), core::slice::from_raw_parts(pb, lk), core::slice::from_raw_parts(pc, lk)), o),
                          { vp_a_pid_fuzzy_set_rule(&mut o, n as c_uint, pe, pec, pa, pb, pc); [1, 0] })
                }
                6 | 7 => twin!(m, tw, o, "pid_fuzzy::run", "a_pid_fuzzy_run", format!("run({:e},{:e})", s, f), rb(o.run(s, f)), rb(vp_a_pid_fuzzy_run(&mut o, s, f))),
                8 | 9 | 10 => twin!(m, tw, o, "pid_fuzzy::pos", "a_pid_fuzzy_pos", format!("pos({:e},{:e})", s, f), rb(o.pos(s, f)), rb(vp_a_pid_fuzzy_pos(&mut o, s, f))),
                _ => twin!(m, tw, o, "pid_fuzzy::inc", "a_pid_fuzzy_inc", format!("inc({:e},{:e})", s, f), rb(o.inc(s, f)), rb(vp_a_pid_fuzzy_inc(&mut o, s, f))),
            };
            if !ok { return false; }
        }
        true
    }

    // ---------------------------------------------------------------- regressions
    unsafe fn h_regress_simple(m: &mut Mon, r: &mut Rng) -> bool {
        let mut tw = Tw::new();
        let (c0, b0) = (r.val(), r.val());
        let (mut o, ok) = twin_new!(m, tw, regress_simple, "regress_simple::new", "a_regress_simple_init", format!("regress_simple::new({:e},{:e})", c0, b0),
                                    regress_simple::new(c0, b0), |s| vft_regress_simple_new(s as *mut u8, c0, b0));
        if !ok { return false; }
        for _ in 0..r.range(10, 40) {
            let v = r.val();
            let nx = r.range(1, 9) as usize;
            let ny = if r.chance(2, 3) { nx } else { r.range(1, 9) as usize };
            let (x, y) = (r.reals(nx), r.reals(ny));
            let n = nx.min(ny);
            let (xm, ym) = (r.val(), r.val());
            let ok = match r.below(8) {
                0 => twin!(m, tw, o, "regress_simple::eval", "a_regress_simple_eval", format!("eval({:e})", v), rb(o.eval(v)), rb(vp_a_regress_simple_eval(&o, v))),
                1 => twin!(m, tw, o, "regress_simple::evar", "a_regress_simple_evar", format!("evar({:e})", v), rb(o.evar(v)), rb(vp_a_regress_simple_evar(&o, v))),
                2 => twin!(m, tw, o, "regress_simple::ols_", "a_regress_simple_ols_", format!("ols_({:?},{:?},{:e},{:e})", x, y, xm, ym), selfp!(o.ols_(&x, &y, xm, ym), o), { vp_a_regress_simple_ols_(&mut o, n, x.as_ptr(), y.as_ptr(), xm, ym); [1, 0] }),
                3 => twin!(m, tw, o, "regress_simple::olsx", "a_regress_simple_olsx", format!("olsx({:?},{:?},{:e})", x, y, xm), selfp!(o.olsx(&x, &y, xm), o), { vp_a_regress_simple_olsx(&mut o, n, x.as_ptr(), y.as_ptr(), xm); [1, 0] }),
                4 => twin!(m, tw, o, "regress_simple::olsy", "a_regress_simple_olsy", format!("olsy({:?},{:?},{:e})", x, y, ym), selfp!(o.olsy(&x, &y, ym), o), { vp_a_regress_simple_olsy(&mut o, n, x.as_ptr(), y.as_ptr(), ym); [1, 0] }),
                5 | 6 => twin!(m, tw, o, "regress_simple::ols", "a_regress_simple_ols", format!("ols({:?},{:?})", x, y), selfp!(o.ols(&x, &y), o), { vp_a_regress_simple_ols(&mut o, n, x.as_ptr(), y.as_ptr()); [1, 0] }),
                _ => twin!(m, tw, o, "regress_simple::zero", "a_regress_simple_zero", String::from("zero()"), selfp!(o.zero(), o), { vp_a_regress_simple_zero(&mut o); [1, 0] }),
            };
            if !ok { return false; }
        }
        true
    }
    const GUARD: usize = 40; // caller arrays carry this many sentinel elements behind the slice handed over, compared as well
    fn gvec(n: usize, fill: real) -> Vec<real> { vec![fill; n + GUARD] }
    unsafe fn h_regress_linear(m: &mut Mon, r: &mut Rng) -> bool {
        let mut tw = Tw::new();
        let k1 = r.range(1, 4) as usize;
        let k2 = r.range(1, 4) as usize;
        let mut coef1 = gvec(k1, -77.0); let mut coef2 = gvec(k2, -78.0);
        for i in 0..k1 { coef1[i] = r.val(); }
        for i in 0..k2 { coef2[i] = r.val(); }
        let mut out = gvec(8, -79.0);
        tw.addv(&mut coef1); tw.addv(&mut coef2); tw.addv(&mut out);
        let (p1, p2, po) = (coef1.as_mut_ptr(), coef2.as_mut_ptr(), out.as_mut_ptr());
        let b0 = r.val();
        let (mut o, ok) = twin_new!(m, tw, regress_linear, "regress_linear::new", "a_regress_linear_init", format!("regress_linear::new(coef1[{}], {:e})", k1, b0),
                                    regress_linear::new(core::slice::from_raw_parts_mut(p1, k1), b0), |s| vft_regress_linear_new(s as *mut u8, p1, k1, b0));
        if !ok { return false; }
        let mut kc = k1;
        for _ in 0..r.range(10, 40) {
            let n = r.range(1, 8) as usize;
            let x = r.reals(n * kc);
            let y = r.reals(n);
            let e = r.reals(n);
            let (a, b, ym) = (r.val() / 16.0, r.val(), r.val());
            let ok = match r.below(12) {
                0 => twin!(m, tw, o, "regress_linear::coef", "a_regress_linear.coef_p", String::from("coef()"),
                           { let s = o.coef(); [s.as_mut_ptr() as usize as u64, s.len() as u64] }, [o.coef_p as usize as u64, o.coef_n as u64]),
                1 => {
                    let second = o.coef_p == p1;
                    let (p, k) = if second { (p2, k2) } else { (p1, k1) };
                    kc = k;
                    twin!(m, tw, o, "regress_linear::set_coef", "a_regress_linear_init", format!("set_coef(coef{}[{}])", if second { 2 } else { 1 }, k),
                          selfp!(o.set_coef(core::slice::from_raw_parts_mut(p, k)), o), { vft_regress_linear_set_coef(&mut o as *mut regress_linear as *mut u8, p, k); [1, 0] })
                }
                2 => twin!(m, tw, o, "regress_linear::eval", "a_regress_linear_eval", format!("eval({:?})", &x[..kc]), rb(o.eval(&x[..kc])), rb(vp_a_regress_linear_eval(&o, x.as_ptr()))),
                3 => twin!(m, tw, o, "regress_linear::err", "a_regress_linear_err", format!("err({:?},{:?},out[{}])", x, y, n),
                           { o.err(&x, &y, core::slice::from_raw_parts_mut(po, n)); [0, 0] }, { vp_a_regress_linear_err(&o, n, x.as_ptr(), y.as_ptr(), po); [0, 0] }),
                4 => twin!(m, tw, o, "regress_linear::pdm", "a_regress_linear_pdm", format!("pdm({:?},out[{}],{:e})", x, n, ym),
                           { o.pdm(&x, core::slice::from_raw_parts_mut(po, n), ym); [0, 0] }, { vp_a_regress_linear_pdm(&o, n, x.as_ptr(), po, ym); [0, 0] }),
                5 => twin!(m, tw, o, "regress_linear::gd", "a_regress_linear_gd", format!("gd({:?},{:e},{:e})", &x[..kc], b, a),
                           selfp!(o.gd(&x[..kc], b, a), o), { vp_a_regress_linear_gd(&mut o, x.as_ptr(), b, a); [1, 0] }),
                6 | 7 => twin!(m, tw, o, "regress_linear::sgd", "a_regress_linear_sgd", format!("sgd({:?},{:?},{:e})", x, y, a),
                               selfp!(o.sgd(&x, &y, a), o), { vp_a_regress_linear_sgd(&mut o, n, x.as_ptr(), y.as_ptr(), a); [1, 0] }),
                8 => twin!(m, tw, o, "regress_linear::bgd", "a_regress_linear_bgd", format!("bgd({:?},{:?},{:e})", x, e, a),
                           selfp!(o.bgd(&x, &e, a), o), { vp_a_regress_linear_bgd(&mut o, n, x.as_ptr(), e.as_ptr(), a); [1, 0] }),
                9 | 10 => {
                    let (delta, lrmax, lrmin) = (r.pos() / 1024.0, r.pos() / 8.0, r.pos() / 64.0);
                    let (lrtim, epoch, batch) = (r.range(1, 20) as usize, r.range(1, 6) as usize, r.range(1, n as i64 + 1) as usize);
                    twin!(m, tw, o, "regress_linear::mgd", "a_regress_linear_mgd", format!("mgd({:?},{:?},out[{}],{:e},{:e},{:e},{},{},{})", x, y, n, delta, lrmax, lrmin, lrtim, epoch, batch),
                          selfp!(o.mgd(&x, &y, core::slice::from_raw_parts_mut(po, n), delta, lrmax, lrmin, lrtim, epoch, batch), o),
                          { let _ = vp_a_regress_linear_mgd(&mut o, n, x.as_ptr(), y.as_ptr(), po, delta, lrmax, lrmin, lrtim, epoch, batch); [1, 0] })
                }
                _ => twin!(m, tw, o, "regress_linear::zero", "a_regress_linear_zero", String::from("zero()"), selfp!(o.zero(), o), { vp_a_regress_linear_zero(&mut o); [1, 0] }),
            };
            if !ok { return false; }
        }
        true
    }

    // ---------------------------------------------------------------- transfer function
    unsafe fn h_tf(m: &mut Mon, r: &mut Rng) -> bool {
        let mut tw = Tw::new();
        // two numerators / denominators of different lengths, two state arrays for each side
        let ln = [r.range(1, 6) as usize, r.range(1, 6) as usize];
        let mut ld = [r.range(1, 6) as usize, r.range(1, 6) as usize];
        if ld[0] == ln[0] { ld[0] = ln[0] % 6 + 1; }
        let mut num = [r.reals(ln[0]), r.reals(ln[1])];
        let mut den = [r.reals(ld[0]), r.reals(ld[1])];
        for v in den.iter_mut() { for x in v.iter_mut() { *x = *x / 16.0; } }
        let mut inp = [gvec(6, -81.0), gvec(6, -82.0)];
        let mut outp = [gvec(6, -83.0), gvec(6, -84.0)];
        for i in 0..2 { tw.addv(&mut num[i]); tw.addv(&mut den[i]); tw.addv(&mut inp[i]); tw.addv(&mut outp[i]); }
        let pn = [num[0].as_ptr(), num[1].as_ptr()]; let pd = [den[0].as_ptr(), den[1].as_ptr()];
        let pi = [inp[0].as_mut_ptr(), inp[1].as_mut_ptr()]; let po = [outp[0].as_mut_ptr(), outp[1].as_mut_ptr()];
        let (mut o, ok) = twin_new!(m, tw, tf, "tf::new", "a_tf_init", format!("tf::new(num0[{}]={:?}, input0, den0[{}]={:?}, output0)", ln[0], num[0], ld[0], den[0]),
                                    tf::new(core::slice::from_raw_parts(pn[0], ln[0]), core::slice::from_raw_parts_mut(pi[0], ln[0]), core::slice::from_raw_parts(pd[0], ld[0]), core::slice::from_raw_parts_mut(po[0], ld[0])),
                                    |s| vft_tf_new(s as *mut u8, ln[0] as c_uint, pn[0], pi[0], ld[0] as c_uint, pd[0], po[0]));
        if !ok { return false; }
        for _ in 0..r.range(10, 40) {
            let x = r.val();
            let ok = match r.below(16) {
                0 => twin!(m, tw, o, "tf::zero", "a_tf_zero", String::from("zero()"), selfp!(o.zero(), o), { vp_a_tf_zero(&o); [1, 0] }),
                1 => twin!(m, tw, o, "tf::input", "a_tf.input", String::from("input()"), { let s = o.input(); [s.as_ptr() as usize as u64, s.len() as u64] }, [o.input as usize as u64, o.num_n as u64]),
                2 => twin!(m, tw, o, "tf::num", "a_tf.num_p", String::from("num()"), { let s = o.num(); [s.as_ptr() as usize as u64, s.len() as u64] }, [o.num_p as usize as u64, o.num_n as u64]),
                3 => twin!(m, tw, o, "tf::output", "a_tf.output", String::from("output()"), { let s = o.output(); [s.as_ptr() as usize as u64, s.len() as u64] }, [o.output as usize as u64, o.den_n as u64]),
                4 => twin!(m, tw, o, "tf::den", "a_tf.den_p", String::from("den()"), { let s = o.den(); [s.as_ptr() as usize as u64, s.len() as u64] }, [o.den_p as usize as u64, o.den_n as u64]),
                5 | 6 => {
                    let (i, j) = (r.below(2) as usize, r.below(2) as usize);
                    twin!(m, tw, o, "tf::set_num", "a_tf_set_num", format!("set_num(num{}[{}]={:?}, input{})", i, ln[i], num[i], j),
                          selfp!(o.set_num(core::slice::from_raw_parts(pn[i], ln[i]), core::slice::from_raw_parts_mut(pi[j], ln[i])), o),
                          { vp_a_tf_set_num(&mut o, ln[i] as c_uint, pn[i], pi[j]); [1, 0] })
                }
                7 | 8 => {
                    let (i, j) = (r.below(2) as usize, r.below(2) as usize);
                    twin!(m, tw, o, "tf::set_den", "a_tf_set_den", format!("set_den(den{}[{}]={:?}, output{})", i, ld[i], den[i], j),
                          selfp!(o.set_den(core::slice::from_raw_parts(pd[i], ld[i]), core::slice::from_raw_parts_mut(po[j], ld[i])), o),
                          { vp_a_tf_set_den(&mut o, ld[i] as c_uint, pd[i], po[j]); [1, 0] })
                }
                _ => twin!(m, tw, o, "tf::iter", "a_tf_iter", format!("iter({:e})", x), rb(o.iter(x)), rb(vp_a_tf_iter(&o, x))),
            };
            if !ok { return false; }
        }
        true
    }

    // ---------------------------------------------------------------- trajectories
    fn instant(r: &mut Rng, t: real) -> real {
        match r.below(8) { 0 => 0.0, 1 => t, 2 => -0.5, 3 => t + 0.5, _ => { let a = if t == t && t > 0.0 && t < 1e6 { t } else { 4.0 }; a * (r.below(1025) as real) / 1024.0 } }
    }
    unsafe fn h_trajbell(m: &mut Mon, r: &mut Rng) -> bool {
        let mut tw = Tw::new();
        let (mut o, ok) = if r.chance(1, 2) {
            twin_new!(m, tw, trajbell, "trajbell::new", "zeroed-a_trajbell", String::from("trajbell::new()"), trajbell::new(), |s| vft_zero(s as *mut u8, core::mem::size_of::<trajbell>()))
        } else {
            twin_new!(m, tw, trajbell, "trajbell::default", "zeroed-a_trajbell", String::from("trajbell::default()"), <trajbell as Default>::default(), |s| vft_zero(s as *mut u8, core::mem::size_of::<trajbell>()))
        };
        if !ok { return false; }
        let mut t: real = 0.0;
        for k in 0..r.range(10, 40) {
            let x = instant(r, t);
            let op = if k == 0 { 0 } else { r.below(12) };
            let ok = match op {
                0 => {
                    let (jm, am, vm, p0, p1, v0, v1) = (r.pos(), r.pos(), r.pos(), r.val(), r.val(), if r.chance(1, 2) { 0.0 } else { r.val() / 8.0 }, if r.chance(1, 2) { 0.0 } else { r.val() / 8.0 });
                    let mut tt: real = 0.0;
                    let ok = twin!(m, tw, o, "trajbell::gen", "a_trajbell_gen", format!("gen({:e},{:e},{:e},{:e},{:e},{:e},{:e})", jm, am, vm, p0, p1, v0, v1),
                                   { tt = o.gen(jm, am, vm, p0, p1, v0, v1); rb(tt) }, rb(vp_a_trajbell_gen(&mut o, jm, am, vm, p0, p1, v0, v1)));
                    t = tt;
                    ok
                }
                1 | 2 | 3 => twin!(m, tw, o, "trajbell::pos", "a_trajbell_pos", format!("pos({:e})", x), rb(o.pos(x)), rb(vp_a_trajbell_pos(&o, x))),
                4 | 5 | 6 => twin!(m, tw, o, "trajbell::vel", "a_trajbell_vel", format!("vel({:e})", x), rb(o.vel(x)), rb(vp_a_trajbell_vel(&o, x))),
                7 | 8 | 9 => twin!(m, tw, o, "trajbell::acc", "a_trajbell_acc", format!("acc({:e})", x), rb(o.acc(x)), rb(vp_a_trajbell_acc(&o, x))),
                _ => twin!(m, tw, o, "trajbell::jer", "a_trajbell_jer", format!("jer({:e})", x), rb(o.jer(x)), rb(vp_a_trajbell_jer(&o, x))),
            };
            if !ok { return false; }
        }
        true
    }
    unsafe fn h_trajtrap(m: &mut Mon, r: &mut Rng) -> bool {
        let mut tw = Tw::new();
        let (mut o, ok) = if r.chance(1, 2) {
            twin_new!(m, tw, trajtrap, "trajtrap::new", "zeroed-a_trajtrap", String::from("trajtrap::new()"), trajtrap::new(), |s| vft_zero(s as *mut u8, core::mem::size_of::<trajtrap>()))
        } else {
            twin_new!(m, tw, trajtrap, "trajtrap::default", "zeroed-a_trajtrap", String::from("trajtrap::default()"), <trajtrap as Default>::default(), |s| vft_zero(s as *mut u8, core::mem::size_of::<trajtrap>()))
        };
        if !ok { return false; }
        let mut t: real = 0.0;
        for k in 0..r.range(10, 40) {
            let x = instant(r, t);
            let op = if k == 0 { 0 } else { r.below(10) };
            let ok = match op {
                0 => {
                    let (vm, ac, de, p0, p1, v0, v1) = (r.pos(), r.pos(), -r.pos(), r.val(), r.val(), if r.chance(1, 2) { 0.0 } else { r.val() / 8.0 }, if r.chance(1, 2) { 0.0 } else { r.val() / 8.0 });
                    let mut tt: real = 0.0;
                    let ok = twin!(m, tw, o, "trajtrap::gen", "a_trajtrap_gen", format!("gen({:e},{:e},{:e},{:e},{:e},{:e},{:e})", vm, ac, de, p0, p1, v0, v1),
                                   { tt = o.gen(vm, ac, de, p0, p1, v0, v1); rb(tt) }, rb(vp_a_trajtrap_gen(&mut o, vm, ac, de, p0, p1, v0, v1)));
                    t = tt;
                    ok
                }
                1 | 2 | 3 => twin!(m, tw, o, "trajtrap::pos", "a_trajtrap_pos", format!("pos({:e})", x), rb(o.pos(x)), rb(vp_a_trajtrap_pos(&o, x))),
                4 | 5 | 6 => twin!(m, tw, o, "trajtrap::vel", "a_trajtrap_vel", format!("vel({:e})", x), rb(o.vel(x)), rb(vp_a_trajtrap_vel(&o, x))),
                _ => twin!(m, tw, o, "trajtrap::acc", "a_trajtrap_acc", format!("acc({:e})", x), rb(o.acc(x)), rb(vp_a_trajtrap_acc(&o, x))),
            };
            if !ok { return false; }
        }
        true
    }
    // coefficient getters write into a caller array: hand over a window of a registered, sentinel-filled buffer
    macro_rules! cget {
        ($m:ident, $tw:ident, $o:ident, $po:ident, $name:expr, $cfn:expr, $meth:ident, $cf:ident, $N:expr) => {
            twin!($m, $tw, $o, $name, $cfn, String::from(concat!(stringify!($meth), "(out)")), { $o.$meth(&mut *($po as *mut [real; $N])); [0, 0] }, { $cf(&$o, $po); [0, 0] })
        };
    }
    unsafe fn h_trajpoly3(m: &mut Mon, r: &mut Rng) -> bool {
        let mut tw = Tw::new();
        let mut out = gvec(8, -85.0); tw.addv(&mut out); let po = out.as_mut_ptr();
        let a = [r.pos(), r.val(), r.val(), r.val(), r.val()];
        let (mut o, ok) = twin_new!(m, tw, trajpoly3, "trajpoly3::new", "a_trajpoly3_gen", format!("trajpoly3::new{:?}", a), trajpoly3::new(a[0], a[1], a[2], a[3], a[4]), |s| vft_trajpoly3_new(s as *mut u8, a[0], a[1], a[2], a[3], a[4]));
        if !ok { return false; }
        let mut t = a[0];
        for _ in 0..r.range(10, 40) {
            let x = instant(r, t);
            let ok = match r.below(12) {
                0 | 1 => { let a = [r.pos(), r.val(), r.val(), r.val(), r.val()]; t = a[0];
                           twin!(m, tw, o, "trajpoly3::gen", "a_trajpoly3_gen", format!("gen{:?}", a), selfp!(o.gen(a[0], a[1], a[2], a[3], a[4]), o), { vp_a_trajpoly3_gen(&mut o, a[0], a[1], a[2], a[3], a[4]); [1, 0] }) }
                2 => cget!(m, tw, o, po, "trajpoly3::c0", "a_trajpoly3_c0", c0, vp_a_trajpoly3_c0, 4),
                3 => cget!(m, tw, o, po, "trajpoly3::c1", "a_trajpoly3_c1", c1, vp_a_trajpoly3_c1, 3),
                4 => cget!(m, tw, o, po, "trajpoly3::c2", "a_trajpoly3_c2", c2, vp_a_trajpoly3_c2, 2),
                5 | 6 | 7 => twin!(m, tw, o, "trajpoly3::pos", "a_trajpoly3_pos", format!("pos({:e})", x), rb(o.pos(x)), rb(vp_a_trajpoly3_pos(&o, x))),
                8 | 9 => twin!(m, tw, o, "trajpoly3::vel", "a_trajpoly3_vel", format!("vel({:e})", x), rb(o.vel(x)), rb(vp_a_trajpoly3_vel(&o, x))),
                _ => twin!(m, tw, o, "trajpoly3::acc", "a_trajpoly3_acc", format!("acc({:e})", x), rb(o.acc(x)), rb(vp_a_trajpoly3_acc(&o, x))),
            };
            if !ok { return false; }
        }
        true
    }
    unsafe fn h_trajpoly5(m: &mut Mon, r: &mut Rng) -> bool {
        let mut tw = Tw::new();
        let mut out = gvec(8, -86.0); tw.addv(&mut out); let po = out.as_mut_ptr();
        let a = [r.pos(), r.val(), r.val(), r.val(), r.val(), r.val(), r.val()];
        let (mut o, ok) = twin_new!(m, tw, trajpoly5, "trajpoly5::new", "a_trajpoly5_gen", format!("trajpoly5::new{:?}", a), trajpoly5::new(a[0], a[1], a[2], a[3], a[4], a[5], a[6]), |s| vft_trajpoly5_new(s as *mut u8, a[0], a[1], a[2], a[3], a[4], a[5], a[6]));
        if !ok { return false; }
        let mut t = a[0];
        for _ in 0..r.range(10, 40) {
            let x = instant(r, t);
            let ok = match r.below(12) {
                0 | 1 => { let a = [r.pos(), r.val(), r.val(), r.val(), r.val(), r.val(), r.val()]; t = a[0];
                           twin!(m, tw, o, "trajpoly5::gen", "a_trajpoly5_gen", format!("gen{:?}", a), selfp!(o.gen(a[0], a[1], a[2], a[3], a[4], a[5], a[6]), o), { vp_a_trajpoly5_gen(&mut o, a[0], a[1], a[2], a[3], a[4], a[5], a[6]); [1, 0] }) }
                2 => cget!(m, tw, o, po, "trajpoly5::c0", "a_trajpoly5_c0", c0, vp_a_trajpoly5_c0, 6),
                3 => cget!(m, tw, o, po, "trajpoly5::c1", "a_trajpoly5_c1", c1, vp_a_trajpoly5_c1, 5),
                4 => cget!(m, tw, o, po, "trajpoly5::c2", "a_trajpoly5_c2", c2, vp_a_trajpoly5_c2, 4),
                5 | 6 | 7 => twin!(m, tw, o, "trajpoly5::pos", "a_trajpoly5_pos", format!("pos({:e})", x), rb(o.pos(x)), rb(vp_a_trajpoly5_pos(&o, x))),
                8 | 9 => twin!(m, tw, o, "trajpoly5::vel", "a_trajpoly5_vel", format!("vel({:e})", x), rb(o.vel(x)), rb(vp_a_trajpoly5_vel(&o, x))),
                _ => twin!(m, tw, o, "trajpoly5::acc", "a_trajpoly5_acc", format!("acc({:e})", x), rb(o.acc(x)), rb(vp_a_trajpoly5_acc(&o, x))),
            };
            if !ok { return false; }
        }
        true
    }
    unsafe fn h_trajpoly7(m: &mut Mon, r: &mut Rng) -> bool {
        let mut tw = Tw::new();
        let mut out = gvec(8, -87.0); tw.addv(&mut out); let po = out.as_mut_ptr();
        let a = [r.pos(), r.val(), r.val(), r.val(), r.val(), r.val(), r.val(), r.val(), r.val()];
        let (mut o, ok) = twin_new!(m, tw, trajpoly7, "trajpoly7::new", "a_trajpoly7_gen", format!("trajpoly7::new{:?}", a), trajpoly7::new(a[0], a[1], a[2], a[3], a[4], a[5], a[6], a[7], a[8]),
                                    |s| vft_trajpoly7_new(s as *mut u8, a[0], a[1], a[2], a[3], a[4], a[5], a[6], a[7], a[8]));
        if !ok { return false; }
        let mut t = a[0];
        for _ in 0..r.range(10, 40) {
            let x = instant(r, t);
            let ok = match r.below(14) {
                0 | 1 => { let a = [r.pos(), r.val(), r.val(), r.val(), r.val(), r.val(), r.val(), r.val(), r.val()]; t = a[0];
                           twin!(m, tw, o, "trajpoly7::gen", "a_trajpoly7_gen", format!("gen{:?}", a), selfp!(o.gen(a[0], a[1], a[2], a[3], a[4], a[5], a[6], a[7], a[8]), o),
                                 { vp_a_trajpoly7_gen(&mut o, a[0], a[1], a[2], a[3], a[4], a[5], a[6], a[7], a[8]); [1, 0] }) }
                2 => cget!(m, tw, o, po, "trajpoly7::c0", "a_trajpoly7_c0", c0, vp_a_trajpoly7_c0, 8),
                3 => cget!(m, tw, o, po, "trajpoly7::c1", "a_trajpoly7_c1", c1, vp_a_trajpoly7_c1, 7),
                4 => cget!(m, tw, o, po, "trajpoly7::c2", "a_trajpoly7_c2", c2, vp_a_trajpoly7_c2, 6),
                5 => cget!(m, tw, o, po, "trajpoly7::c3", "a_trajpoly7_c3", c3, vp_a_trajpoly7_c3, 5),
                6 | 7 | 8 => twin!(m, tw, o, "trajpoly7::pos", "a_trajpoly7_pos", format!("pos({:e})", x), rb(o.pos(x)), rb(vp_a_trajpoly7_pos(&o, x))),
                9 | 10 => twin!(m, tw, o, "trajpoly7::vel", "a_trajpoly7_vel", format!("vel({:e})", x), rb(o.vel(x)), rb(vp_a_trajpoly7_vel(&o, x))),
                11 | 12 => twin!(m, tw, o, "trajpoly7::acc", "a_trajpoly7_acc", format!("acc({:e})", x), rb(o.acc(x)), rb(vp_a_trajpoly7_acc(&o, x))),
                _ => twin!(m, tw, o, "trajpoly7::jer", "a_trajpoly7_jer", format!("jer({:e})", x), rb(o.jer(x)), rb(vp_a_trajpoly7_jer(&o, x))),
            };
            if !ok { return false; }
        }
        true
    }

    // ---------------------------------------------------------------- version
    fn ordcode(x: Option<VOrd>) -> u64 { match x { Some(VOrd::Less) => 1, Some(VOrd::Equal) => 2, Some(VOrd::Greater) => 3, None => 0 } }
    unsafe fn h_version(m: &mut Mon, r: &mut Rng) -> bool {
        let mut tw = Tw::new();
        let mut buf: Vec<u8> = vec![0x5Cu8; 48 + GUARD];
        tw.addv(&mut buf);
        let pb = buf.as_mut_ptr();
        let (ma, mi, th) = (r.below(4) as c_uint, r.below(4) as c_uint, r.below(4) as c_uint);
        let (mut o, ok) = if r.chance(3, 4) {
            twin_new!(m, tw, version, "version::new", "A_VERSION_3", format!("version::new({},{},{})", ma, mi, th), version::new(ma, mi, th), |s| vft_version_new(s as *mut u8, ma, mi, th))
        } else {
            twin_new!(m, tw, version, "version::default", "A_VERSION_0", String::from("version::default()"), <version as Default>::default(), |s| vft_version_new(s as *mut u8, 0, 0, 0))
        };
        if !ok { return false; }
        // every text handed to the C parser carries its terminator inside the slice (the wrappers pass no length)
        let alphas: [&[u8]; 10] = [b".\0", b"-rc\0", b"+\0", b"alpha.\0", b"a\0", b"beta1\0", b"1\0", b"\0", b"-b.\0", b"+build\0"];
        let texts: [&str; 12] = ["1.2.3\0", "0.0.1-a.1\0", "10.20\0", "7\0", "x\0", "3.4.5+b7\0", "1.2.3.4\0", "2.0.0-rc.12\0", "\0", "0.1.0alpha3\0", "4294967295.1.1\0", "1..2\0"];
        for _ in 0..r.range(10, 40) {
            let mut b = version::new(r.below(4) as c_uint, r.below(4) as c_uint, r.below(4) as c_uint);
            if r.chance(1, 3) { b.major = o.major; b.minor = o.minor; if r.chance(1, 2) { b.third = o.third; } }
            b.extra = r.below(3) as c_uint;
            let bd = format!("version{{{},{},{},{}}}", b.major, b.minor, b.third, b.extra);
            let ok = match r.below(18) {
                0 => { let a = alphas[r.below(10) as usize];
                       twin!(m, tw, o, "version::set_alpha", "a_version_set_alpha", format!("set_alpha({:?})", a), { o.set_alpha(a); [0, 0] }, { vp_a_version_set_alpha(&mut o, a.as_ptr()); [0, 0] }) }
                1 => twin!(m, tw, o, "version::alpha", "a_version_alpha", String::from("alpha(out)"), { o.alpha(&mut *(pb as *mut [u8; 5])); [0, 0] }, { vp_a_version_alpha(&o, &mut *(pb as *mut [u8; 5])); [0, 0] }),
                2 | 3 => {
                    let owned: String = if r.chance(1, 2) { String::from(texts[r.below(12) as usize]) } else { format!("{}.{}.{}\0", r.below(50), r.below(50), r.below(50)) };
                    let t: &str = &owned;
                    twin!(m, tw, o, "version::parse", "a_version_parse", format!("parse({:?})", t), ru(o.parse(t) as u64), ru(vp_a_version_parse(&mut o, t.as_ptr()) as u64))
                }
                4 | 5 => { let n = if r.chance(1, 3) { r.below(8) as usize } else { 48 };
                           twin!(m, tw, o, "version::tostr", "a_version_tostr", format!("tostr(out[{}])", n), ru(o.tostr(core::slice::from_raw_parts_mut(pb, n)) as i64 as u64), ru(vp_a_version_tostr(&o, pb, n) as i64 as u64)) }
                6 => { let (x, y, z) = (r.below(3) as c_uint, r.below(3) as c_uint, r.below(3) as c_uint);
                       twin!(m, tw, o, "version::check", "a_version_check", format!("version::check({},{},{})", x, y, z), ru(version::check(x, y, z) as i64 as u64), ru(vp_a_version_check(x, y, z) as i64 as u64)) }
                7 => twin!(m, tw, o, "version::major", "a_version_major", String::from("version::major()"), ru(version::major() as u64), ru(vft_version_lib(0) as u64)),
                8 => twin!(m, tw, o, "version::minor", "a_version_minor", String::from("version::minor()"), ru(version::minor() as u64), ru(vft_version_lib(1) as u64)),
                9 => twin!(m, tw, o, "version::patch", "a_version_patch", String::from("version::patch()"), ru(version::patch() as u64), ru(vft_version_lib(2) as u64)),
                10 => twin!(m, tw, o, "version::tweak", "a_version_tweak", String::from("version::tweak()"), ru(version::tweak() as u64), ru(vft_version_lib(3) as u64)),
                11 => twin!(m, tw, o, "version::partial_cmp", "a_version_cmp", format!("partial_cmp({})", bd), ru(ordcode(o.partial_cmp(&b))),
                            { let rc = vp_a_version_cmp(&o, &b); ru(if rc > 0 { 3 } else if rc < 0 { 1 } else { 2 }) }),
                12 => twin!(m, tw, o, "version::lt", "a_version_lt", format!("lt({})", bd), ru((o < b) as u64), ru(vp_a_version_lt(&o, &b) as u64)),
                13 => twin!(m, tw, o, "version::gt", "a_version_gt", format!("gt({})", bd), ru((o > b) as u64), ru(vp_a_version_gt(&o, &b) as u64)),
                14 => twin!(m, tw, o, "version::le", "a_version_le", format!("le({})", bd), ru((o <= b) as u64), ru(vp_a_version_le(&o, &b) as u64)),
                15 => twin!(m, tw, o, "version::ge", "a_version_ge", format!("ge({})", bd), ru((o >= b) as u64), ru(vp_a_version_ge(&o, &b) as u64)),
                _ => twin!(m, tw, o, "version::eq", "a_version_eq", format!("eq({})", bd), ru((o == b) as u64), ru(vp_a_version_eq(&o, &b) as u64)),
            };
            if !ok { return false; }
        }
        true
    }

    // ---------------------------------------------------------------- what this module covers: (wrapper, C counterpart)
    pub const COVER: &[(&str, &str)] = &[
        ("u32_sqrt", "a_u32_sqrt"), ("u64_sqrt", "a_u64_sqrt"), ("f32_rsqrt", "a_f32_rsqrt"), ("f64_rsqrt", "a_f64_rsqrt"),
        ("real_sum", "a_real_sum"), ("real_sum1", "a_real_sum1"), ("real_sum2", "a_real_sum2"), ("real_mean", "a_real_mean"),
        ("hash_bkdr", "a_hash_bkdr_"), ("hash_sdbm", "a_hash_sdbm_"),
        ("crc8::new_msb", "a_crc8m_init"), ("crc8::new_lsb", "a_crc8l_init"), ("crc8::gen_msb", "a_crc8m_init"), ("crc8::gen_lsb", "a_crc8l_init"), ("crc8::eval", "a_crc8"),
        ("crc16::new_msb", "a_crc16m_init"), ("crc16::new_lsb", "a_crc16l_init"), ("crc16::gen_msb", "a_crc16m_init"), ("crc16::gen_lsb", "a_crc16l_init"), ("crc16::eval", "a_crc16m"), ("crc16::eval", "a_crc16l"),
        ("crc32::new_msb", "a_crc32m_init"), ("crc32::new_lsb", "a_crc32l_init"), ("crc32::gen_msb", "a_crc32m_init"), ("crc32::gen_lsb", "a_crc32l_init"), ("crc32::eval", "a_crc32m"), ("crc32::eval", "a_crc32l"),
        ("crc64::new_msb", "a_crc64m_init"), ("crc64::new_lsb", "a_crc64l_init"), ("crc64::gen_msb", "a_crc64m_init"), ("crc64::gen_lsb", "a_crc64l_init"), ("crc64::eval", "a_crc64m"), ("crc64::eval", "a_crc64l"),
        ("hpf::new", "a_hpf_init"), ("hpf::gen", "a_hpf_gen"), ("hpf::iter", "a_hpf_iter"), ("hpf::zero", "a_hpf_zero"),
        ("lpf::new", "a_lpf_init"), ("lpf::gen", "a_lpf_gen"), ("lpf::iter", "a_lpf_iter"), ("lpf::zero", "a_lpf_zero"),
        ("mf::gauss", "a_mf_gauss"), ("mf::gauss2", "a_mf_gauss2"), ("mf::gbell", "a_mf_gbell"), ("mf::sig", "a_mf_sig"), ("mf::dsig", "a_mf_dsig"), ("mf::psig", "a_mf_psig"),
        ("mf::trap", "a_mf_trap"), ("mf::tri", "a_mf_tri"), ("mf::lins", "a_mf_lins"), ("mf::linz", "a_mf_linz"), ("mf::s", "a_mf_s"), ("mf::z", "a_mf_z"), ("mf::pi", "a_mf_pi"),
        ("mf::NUL", "A_MF_NUL"), ("mf::GAUSS", "A_MF_GAUSS"), ("mf::GAUSS2", "A_MF_GAUSS2"), ("mf::GBELL", "A_MF_GBELL"), ("mf::SIG", "A_MF_SIG"), ("mf::DSIG", "A_MF_DSIG"), ("mf::PSIG", "A_MF_PSIG"),
        ("mf::TRAP", "A_MF_TRAP"), ("mf::TRI", "A_MF_TRI"), ("mf::LINS", "A_MF_LINS"), ("mf::LINZ", "A_MF_LINZ"), ("mf::S", "A_MF_S"), ("mf::Z", "A_MF_Z"), ("mf::PI", "A_MF_PI"),
        ("fuzzy::CAP", "A_PID_FUZZY_CAP"), ("fuzzy::CAP_ALGEBRA", "A_PID_FUZZY_CAP_ALGEBRA"), ("fuzzy::CAP_BOUNDED", "A_PID_FUZZY_CAP_BOUNDED"), ("fuzzy::CUP", "A_PID_FUZZY_CUP"),
        ("fuzzy::CUP_ALGEBRA", "A_PID_FUZZY_CUP_ALGEBRA"), ("fuzzy::CUP_BOUNDED", "A_PID_FUZZY_CUP_BOUNDED"), ("fuzzy::EQU", "A_PID_FUZZY_EQU"),
        ("pid::default", "a_pid_init"), ("pid::new", "a_pid_init"), ("pid::set_kpid", "a_pid_set_kpid"), ("pid::run", "a_pid_run"), ("pid::pos", "a_pid_pos"), ("pid::inc", "a_pid_inc"), ("pid::zero", "a_pid_zero"),
        ("pid_fuzzy::default", "a_pid_fuzzy_init"), ("pid_fuzzy::new", "a_pid_fuzzy_init"), ("pid_fuzzy::set_opr", "a_pid_fuzzy_set_opr"), ("pid_fuzzy::BFUZZ", "A_PID_FUZZY_BFUZZ"), ("pid_fuzzy::bfuzz", "a_pid_fuzzy_bfuzz"),
        ("pid_fuzzy::set_bfuzz", "a_pid_fuzzy_set_bfuzz"), ("pid_fuzzy::set_rule", "a_pid_fuzzy_set_rule"), ("pid_fuzzy::set_kpid", "a_pid_fuzzy_set_kpid"), ("pid_fuzzy::run", "a_pid_fuzzy_run"),
        ("pid_fuzzy::pos", "a_pid_fuzzy_pos"), ("pid_fuzzy::inc", "a_pid_fuzzy_inc"), ("pid_fuzzy::zero", "a_pid_fuzzy_zero"),
        ("pid_neuro::default", "a_pid_neuro_init"), ("pid_neuro::new", "a_pid_neuro_init"), ("pid_neuro::set_kpid", "a_pid_neuro_set_kpid"), ("pid_neuro::set_wpid", "a_pid_neuro_set_wpid"),
        ("pid_neuro::run", "a_pid_neuro_run"), ("pid_neuro::inc", "a_pid_neuro_inc"), ("pid_neuro::zero", "a_pid_neuro_zero"),
        ("regress_linear::new", "a_regress_linear_init"), ("regress_linear::coef", "a_regress_linear.coef_p"), ("regress_linear::set_coef", "a_regress_linear_init"), ("regress_linear::eval", "a_regress_linear_eval"),
        ("regress_linear::err", "a_regress_linear_err"), ("regress_linear::pdm", "a_regress_linear_pdm"), ("regress_linear::gd", "a_regress_linear_gd"), ("regress_linear::sgd", "a_regress_linear_sgd"),
        ("regress_linear::bgd", "a_regress_linear_bgd"), ("regress_linear::mgd", "a_regress_linear_mgd"), ("regress_linear::zero", "a_regress_linear_zero"),
        ("regress_simple::new", "a_regress_simple_init"), ("regress_simple::eval", "a_regress_simple_eval"), ("regress_simple::evar", "a_regress_simple_evar"), ("regress_simple::ols_", "a_regress_simple_ols_"),
        ("regress_simple::olsx", "a_regress_simple_olsx"), ("regress_simple::olsy", "a_regress_simple_olsy"), ("regress_simple::ols", "a_regress_simple_ols"), ("regress_simple::zero", "a_regress_simple_zero"),
        ("tf::new", "a_tf_init"), ("tf::iter", "a_tf_iter"), ("tf::zero", "a_tf_zero"), ("tf::input", "a_tf.input"), ("tf::num", "a_tf.num_p"), ("tf::set_num", "a_tf_set_num"),
        ("tf::output", "a_tf.output"), ("tf::den", "a_tf.den_p"), ("tf::set_den", "a_tf_set_den"),
        ("trajbell::default", "zeroed-a_trajbell"), ("trajbell::new", "zeroed-a_trajbell"), ("trajbell::gen", "a_trajbell_gen"), ("trajbell::pos", "a_trajbell_pos"), ("trajbell::vel", "a_trajbell_vel"),
        ("trajbell::acc", "a_trajbell_acc"), ("trajbell::jer", "a_trajbell_jer"),
        ("trajpoly3::new", "a_trajpoly3_gen"), ("trajpoly3::gen", "a_trajpoly3_gen"), ("trajpoly3::c0", "a_trajpoly3_c0"), ("trajpoly3::c1", "a_trajpoly3_c1"), ("trajpoly3::c2", "a_trajpoly3_c2"),
        ("trajpoly3::pos", "a_trajpoly3_pos"), ("trajpoly3::vel", "a_trajpoly3_vel"), ("trajpoly3::acc", "a_trajpoly3_acc"),
        ("trajpoly5::new", "a_trajpoly5_gen"), ("trajpoly5::gen", "a_trajpoly5_gen"), ("trajpoly5::c0", "a_trajpoly5_c0"), ("trajpoly5::c1", "a_trajpoly5_c1"), ("trajpoly5::c2", "a_trajpoly5_c2"),
        ("trajpoly5::pos", "a_trajpoly5_pos"), ("trajpoly5::vel", "a_trajpoly5_vel"), ("trajpoly5::acc", "a_trajpoly5_acc"),
        ("trajpoly7::new", "a_trajpoly7_gen"), ("trajpoly7::gen", "a_trajpoly7_gen"), ("trajpoly7::c0", "a_trajpoly7_c0"), ("trajpoly7::c1", "a_trajpoly7_c1"), ("trajpoly7::c2", "a_trajpoly7_c2"), ("trajpoly7::c3", "a_trajpoly7_c3"),
        ("trajpoly7::pos", "a_trajpoly7_pos"), ("trajpoly7::vel", "a_trajpoly7_vel"), ("trajpoly7::acc", "a_trajpoly7_acc"), ("trajpoly7::jer", "a_trajpoly7_jer"),
        ("trajtrap::default", "zeroed-a_trajtrap"), ("trajtrap::new", "zeroed-a_trajtrap"), ("trajtrap::gen", "a_trajtrap_gen"), ("trajtrap::pos", "a_trajtrap_pos"), ("trajtrap::vel", "a_trajtrap_vel"), ("trajtrap::acc", "a_trajtrap_acc"),
        ("version::default", "A_VERSION_0"), ("version::new", "A_VERSION_3"), ("version::set_alpha", "a_version_set_alpha"), ("version::alpha", "a_version_alpha"), ("version::parse", "a_version_parse"),
        ("version::tostr", "a_version_tostr"), ("version::check", "a_version_check"), ("version::major", "a_version_major"), ("version::minor", "a_version_minor"), ("version::patch", "a_version_patch"),
        ("version::tweak", "a_version_tweak"), ("version::partial_cmp", "a_version_cmp"), ("version::lt", "a_version_lt"), ("version::gt", "a_version_gt"), ("version::le", "a_version_le"),
        ("version::ge", "a_version_ge"), ("version::eq", "a_version_eq"),
    ];

    pub fn equiv(seed: u64, nhist: usize) {
        self::vstd::panic::set_hook(self::vstd::boxed::Box::new(|info| { died("panic"); println!("TWPANIC {}", info); }));
        println!("TWBEGIN {} {}", seed, nhist);
        let mut m = Mon::new(seed);
        unsafe {
            G_ACTIVE = true;
            drive(&mut m, 1, "free-functions", nhist, h_free);
            drive(&mut m, 2, "mf", nhist, h_mf);
            drive(&mut m, 3, "constants", 1, h_const);
            drive(&mut m, 4, "crc8", nhist, h_crc8);
            drive(&mut m, 5, "crc16", nhist, h_crc16);
            drive(&mut m, 6, "crc32", nhist, h_crc32);
            drive(&mut m, 7, "crc64", nhist, h_crc64);
            drive(&mut m, 8, "hpf", nhist, h_hpf);
            drive(&mut m, 9, "lpf", nhist, h_lpf);
            drive(&mut m, 10, "pid", nhist, h_pid);
            drive(&mut m, 11, "pid_fuzzy", nhist, h_pid_fuzzy);
            drive(&mut m, 12, "pid_neuro", nhist, h_pid_neuro);
            drive(&mut m, 13, "regress_linear", nhist, h_regress_linear);
            drive(&mut m, 14, "regress_simple", nhist, h_regress_simple);
            drive(&mut m, 15, "tf", nhist, h_tf);
            drive(&mut m, 16, "trajbell", nhist, h_trajbell);
            drive(&mut m, 17, "trajpoly3", nhist, h_trajpoly3);
            drive(&mut m, 18, "trajpoly5", nhist, h_trajpoly5);
            drive(&mut m, 19, "trajpoly7", nhist, h_trajpoly7);
            drive(&mut m, 20, "trajtrap", nhist, h_trajtrap);
            drive(&mut m, 21, "version", nhist, h_version);
            G_ACTIVE = false;
        }
        m.report();
    }
