/* C13, other real widths (A_SIZE_REAL = 4 float, 16 long double): compact type-generic companion of h_fuzzy.c (which
 * assumes a_real == double).  It drives the fuzzy gain scheduling with an EXACT-SIZE scratch buffer of
 * A_PID_FUZZY_BFUZZ(N) bytes (ASan red zone directly behind it; the layout of the index and value areas inside it
 * depends on sizeof(a_real)) and compares the derived gains with the weighted mean of the active rule consequents
 * computed in __float128 from the library's own a_mf_tri degrees and a_pid_fuzzy_opr() operator.  All inputs sit on a
 * dyadic grid, so every membership degree is exactly 0 or >= 1/16: no ambiguity at the activation threshold.
 * Membership families are also sampled for the range clause in the working type.
 */
#define VF_PROP "C13"
#include "vf_common.h"
#include "a/mf.h"
#include "a/pid_fuzzy.h"
#include <quadmath.h>
typedef __float128 q_t;
#define EPS ((q_t)A_REAL_EPSILON)
#if A_REAL_TYPE + 0 == A_REAL_SINGLE
#define W "f32"
#elif A_REAL_TYPE + 0 == A_REAL_EXTEND
#define W "f80"
#else
#define W "f64"
#endif

#include "h_mf_extreme.h"

static uint64_t vf_ncases(int tier) { return tier ? 40000 : 1600; }

static void pid_case(uint64_t c, vf_rng *r)
{
    unsigned const n = 3 + (unsigned)(c % 5);          /* rule base order 3..7 */
    unsigned const hw = 1 + (unsigned)(c / 5 % 2);      /* half-width of the triangles in grid steps: 1 -> <=2 active, 2 -> <=4 active */
    unsigned const opr = (unsigned)(c / 10 % 7);
    /* scratch sized for the number of simultaneously active sets. In the long double build only even N are used: the value area
       starts 2*N*sizeof(unsigned) bytes into the buffer, which for odd N is not a multiple of the 16-byte alignment of long double
       (a misaligned store in a_pid_fuzzy_mf, reported by UBSan). That layout is the documented macro A_PID_FUZZY_BFUZZ itself, the long
       double width is outside what properties C10/C11/C13 quantify over, and a repair would change the documented buffer size, so it
       is recorded as an observation (DESIGN.md section 8) and not judged. */
#if A_REAL_TYPE + 0 == A_REAL_EXTEND
    unsigned const N = hw == 1 ? 2 + 2 * (unsigned)vf_below(r, 2) : 4;
#else
    unsigned const N = hw == 1 ? 2 + (unsigned)vf_below(r, 2) : 4;
#endif
    a_real *me = (a_real *)malloc(sizeof(a_real) * 4 * n), *mec = (a_real *)malloc(sizeof(a_real) * 4 * n);
    a_real *mk[3];
    void *bf = malloc(A_PID_FUZZY_BFUZZ((size_t)N)); /* exact size */
    a_pid_fuzzy ctx;
    a_real base[3], cmax = 0;
    a_real (*op)(a_real, a_real) = a_pid_fuzzy_opr(opr);
    int lo = -(int)(n - 1) / 2;
    for (unsigned i = 0; i < n; ++i)
    {
        a_real ci = (a_real)(lo + (int)i);
        me[4 * i] = mec[4 * i] = (a_real)A_MF_TRI;
        me[4 * i + 1] = mec[4 * i + 1] = i == 0 ? ci : ci - (a_real)hw;
        me[4 * i + 2] = mec[4 * i + 2] = ci;
        me[4 * i + 3] = mec[4 * i + 3] = i + 1 == n ? ci : ci + (a_real)hw;
    }
    for (int t = 0; t < 3; ++t)
    {
        mk[t] = (a_real *)malloc(sizeof(a_real) * n * n);
        for (unsigned i = 0; i < n * n; ++i)
        {
            mk[t][i] = (a_real)vf_range(r, -9, 9);
            if (mk[t][i] > cmax) { cmax = mk[t][i]; }
            if (-mk[t][i] > cmax) { cmax = -mk[t][i]; }
        }
        base[t] = (a_real)vf_range(r, 0, 20);
    }
    memset(&ctx, 0x5C, sizeof(ctx));
    memset(bf, 0x5C, A_PID_FUZZY_BFUZZ((size_t)N));
    ctx.pid.summax = +A_REAL_INF; ctx.pid.summin = -A_REAL_INF; ctx.pid.outmax = +A_REAL_INF; ctx.pid.outmin = -A_REAL_INF;
    ctx.kp = ctx.ki = ctx.kd = 0;
    a_pid_fuzzy_set_opr(&ctx, opr);
    a_pid_fuzzy_set_rule(&ctx, n, me, mec, mk[0], vf_chance(r, 1, 6) ? NULL : mk[1], vf_chance(r, 1, 6) ? NULL : mk[2]);
    a_pid_fuzzy_set_bfuzz(&ctx, bf, N);
    a_pid_fuzzy_set_kpid(&ctx, base[0], base[1], base[2]);
    a_pid_fuzzy_init(&ctx);
    vf_log("fuzzy pid[" W "] order %u half-width %u operator %u scratch N=%u (%zu bytes)", n, hw, opr, N, (size_t)A_PID_FUZZY_BFUZZ((size_t)N));
    {
        a_real eprev = 0;
        for (int k = 0; k < 12; ++k)
        {
            a_real e = (a_real)vf_range(r, 8 * lo - 12, -8 * lo + 12) / 8, ec = e - eprev;
            q_t num[3] = {0, 0, 0}, den = 0;
            unsigned na = 0, nb = 0;
            for (unsigned i = 0; i < n; ++i)
            {
                a_real mi = a_mf_tri(e, me[4 * i + 1], me[4 * i + 2], me[4 * i + 3]);
                if (!(mi > 0)) { continue; }
                ++na;
                nb = 0;
                for (unsigned j = 0; j < n; ++j)
                {
                    a_real mj = a_mf_tri(ec, mec[4 * j + 1], mec[4 * j + 2], mec[4 * j + 3]), w;
                    if (!(mj > 0)) { continue; }
                    ++nb;
                    w = op(mi, mj);
                    den += (q_t)w;
                    for (int t = 0; t < 3; ++t) { num[t] += (q_t)w * (q_t)mk[t][i * n + j]; }
                }
            }
            if (na > N || nb > N) { eprev = e; (void)a_pid_fuzzy_pos(&ctx, e, 0); continue; } /* cannot happen by construction */
            (void)a_pid_fuzzy_pos(&ctx, e, 0); /* set = e, fdb = 0 -> err = e, ec = e - previous err */
            ++vf.evals;
            VF_COUNT("w-fuzzy-gains-weighted-mean");
            for (int t = 0; t < 3; ++t)
            {
                a_real const *tab = t == 0 ? ctx.mkp : t == 1 ? ctx.mki : ctx.mkd;
                a_real got = t == 0 ? ctx.pid.kp : t == 1 ? ctx.pid.ki : ctx.pid.kd;
                q_t want = (q_t)base[t] + ((tab && den > 0 && na && nb) ? num[t] / den : 0);
                q_t tol = 8 * EPS * ((q_t)base[t] + (q_t)cmax + 1) * (q_t)(na * nb + 2);
                if (!(fabsq((q_t)got - want) <= tol))
                {
                    vf_viol("pid_fuzzy/gain-ne-weighted-mean/" W, "order %u half-width %u operator %u N=%u step %d e=%.6Lg ec=%.6Lg: k%c = %.12Lg, base + weighted mean of the %u x %u active consequents = %.12Lg",
                            n, hw, opr, N, k, (long double)e, (long double)ec, "pid"[t], (long double)got, na, nb, (long double)want);
                    goto done;
                }
            }
            eprev = e;
            vf_distinct(vf_hash64(vf_hash64(vf_hash64(vf_hash64(5, n), hw), opr), (uint64_t)(na * 8 + nb)));
        }
    }
    if (vf_want_sample() && c % 41 == 0)
    {
        vf_sample("fuzzy pid[" W "]: order %u, triangles of half-width %u, operator %u, exact-size scratch A_PID_FUZZY_BFUZZ(%u) = %zu bytes; 12 steps: kp/ki/kd == base + weighted mean (quad) of the active consequents",
                  n, hw, opr, N, (size_t)A_PID_FUZZY_BFUZZ((size_t)N));
    }
done:
    free(me); free(mec); free(mk[0]); free(mk[1]); free(mk[2]); free(bf);
}

static void mf_case(vf_rng *r)
{
    /* range clause in the working type: well-ordered parameters, every family */
    for (int k = 0; k < 64; ++k)
    {
        a_real s = (a_real)vf_logu(r, -3, 3), a = (a_real)(vf_sign(r) * vf_logu(r, -2, 2)), b = a + s * (a_real)vf_uniform(r, 0.1, 1), c = b + s * (a_real)vf_uniform(r, 0.1, 1),
               d = c + s * (a_real)vf_uniform(r, 0.1, 1), x = a + (d - a) * (a_real)vf_uniform(r, -0.5, 1.5);
        a_real v[12];
        v[0] = a_mf_gauss(x, s, b); v[1] = a_mf_gauss2(x, s, b, s, c); v[2] = a_mf_gbell(x, s, 2, b); v[3] = a_mf_sig(x, 1 / s, b);
        v[4] = a_mf_trap(x, a, b, c, d); v[5] = a_mf_tri(x, a, b, c); v[6] = a_mf_lins(x, a, b); v[7] = a_mf_linz(x, a, b);
        v[8] = a_mf_s(x, a, b); v[9] = a_mf_z(x, a, b); v[10] = a_mf_pi(x, a, b, c, d); v[11] = a_mf_psig(x, 1 / s, a, -1 / s, d);
        ++vf.evals;
        VF_COUNT("w-mf-range");
        for (int i = 0; i < 12; ++i)
        {
            if (!(v[i] >= 0 && v[i] <= 1)) { vf_viol("mf/range/" W, "family #%d at x=%.9Lg (a=%.9Lg b=%.9Lg c=%.9Lg d=%.9Lg s=%.9Lg) = %.9Lg", i, (long double)x, (long double)a, (long double)b, (long double)c, (long double)d, (long double)s, (long double)v[i]); return; }
        }
        /* s + z == 1 and lins + linz == 1 are algebraic consequences of the formulas only while the rounded midpoint (a+b)/2 is
           indistinguishable from the real one: at x == fl((a+b)/2) the two functions evaluate DIFFERENT branch formulas, which differ
           by 4*delta^2 with delta = (fl(mid) - mid)/(b - a).  Requiring 4*delta^2 <= eps gives b - a >= |mid| * sqrt(eps); narrower
           flanks are not judged (first version of this companion judged them: false alarm in the float build, thorough seed 2,
           x=-58.1306458 a=-58.1311684 b=-58.1301193, s+z = 1.0000132). */
        if ((q_t)(b - a) >= 4 * sqrtq(EPS) * (fabsq((q_t)a) + fabsq((q_t)b)))
        {
            a_real sz = a_mf_s(x, a, b) + a_mf_z(x, a, b), ll = a_mf_lins(x, a, b) + a_mf_linz(x, a, b);
            VF_COUNT("w-mf-pairs-complementary");
            if (fabsq((q_t)sz - 1) > 2 * EPS || fabsq((q_t)ll - 1) > 2 * EPS) { vf_viol("mf/pairs-not-complementary/" W, "x=%.9Lg a=%.9Lg b=%.9Lg: s+z=%.12Lg lins+linz=%.12Lg", (long double)x, (long double)a, (long double)b, (long double)sz, (long double)ll); return; }
        }
    }
    vf_distinct(0xABCDEF);
}

static void vf_case(uint64_t c, vf_rng *r)
{
    if (c == 0) { bfuzz_macro_hygiene("/" W); }
    if (c % 8 == 7) { mf_case(r); mf_extreme(r, "/" W, 48); }
    else { pid_case(c, r); }
}
