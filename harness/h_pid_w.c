/* C12, other real widths (A_SIZE_REAL = 4 float, 16 long double): compact type-generic companion of h_pid.c (which assumes
 * a_real == double).  Same equations as documented in the header of h_pid.c, restated in the WORKING type:
 *   exact   set-points / feedback / limits integers, gains k/16, histories short enough that every partial sum is a multiple of 2^-4
 *           below 2^20: every operation is exact in any binary type with >= 24 bits, so sum/out/var/fdb/err are compared with == against
 *           an independent __float128 running reference over the whole history (random run/pos/inc switches, a_pid_zero in mid-history =
 *           reference reset to the fresh state, re-tuning).  pos == inc == closed form while no limit has been active.  Half of the plain
 *           histories (both regimes) are scaled as a whole - inputs and finite limits - by 2^-60, 2^-30, 2^-12, 2^30 or 2^40: the equations are
 *           homogeneous, so exactness is kept (no product leaves the normal range of float: |sum*err| in [2^-124, 2^105]) and an absolute
 *           threshold or epsilon tuned for one width shows.
 *           fuzzy: triangles tri(c-1,c,c+1) on the integers and integer e, ec: exactly one rule fires with weight 1 under every operator,
 *           so the scheduled gains are base + consequent[e set][ec set] exactly (a table look-up) and the whole controller is exact.
 *   one-step  values that use the FULL mantissa of the working type (a temporary of a narrower type shows): the documented equation is
 *           evaluated in __float128 on the controller's own previous state and compared within TOLK*eps*sum|terms|, eps = A_REAL_EPSILON of
 *           the working type.  A-priori bound of the working-type evaluation: <= 5 roundings per term for the PID forms (2.5 eps), 7 for the
 *           neuron output (3.5 eps), 4 for a weight update (2 eps); TOLK = 16 as in h_pid.c.  An absolute slack of A_REAL_MIN*2^20 (scaled by
 *           |K|/sum|w| for the neuron quotient) covers products that underflow in float.  Fuzzy gains on the quarter grid: weighted mean of
 *           the library's own a_mf_tri degrees and operator values in __float128 within 8*eps*(|base|+max|c|+1)*(rules+2) (constant of h_fuzzy_w.c).
 *   always  output inside [outmin,outmax], state finite, return == out field, limits/gains/configuration untouched, err/fdb/var/ec single
 *           roundings (==), integrator untouched by run/inc, never further beyond a clamp, overshoot <= one increment, step == ki*err.
 *   layout  A_PID_FUZZY_BFUZZ(N) restated with sizeof(a_real); the scratch is an exact-size malloc block; idx (2N unsigned) and val ((2+N)N reals)
 *           lie inside it and are disjoint.  In the long double build N is even (odd N misaligns val: observation of DESIGN.md section 8).
 *   threshold (anchored at pid_fuzzy.c a_pid_fuzzy_mf, "y > A_REAL_EPSILON"; same convention as the C13 reference): a lone set with degree
 *           in [4 eps, 64 eps] of the WORKING type fires (gain = base + consequent, which is also what the pure equations say), one with
 *           degree in (0, eps/4] does not (gain == base).  The band (eps/4, 4 eps) is not judged.
 *   reconfiguration  a third of the fuzzy histories are reconfigured before about every 6th step (fz_reconf: a_pid_fuzzy_set_rule with another NULL pattern of
 *           freshly allocated consequent tables, a_pid_fuzzy_set_kpid / writes to the base fields, writes to the gains of the embedded a_pid); the gain
 *           clauses use the configuration in force, and a gain whose table is NULL must equal the base gain in force after every step (h_pid.c, C12-J).
 * Every struct handed to an init function is a garbage-filled (0xA5) exact-size malloc block; every table is an exact-size malloc block.
 */
#define VF_PROP "C12"
#include "vf_common.h"
#include <math.h>
#include <quadmath.h>
#include "a/a.h"
#include "a/pid.h"
#include "a/mf.h"
#include "a/pid_fuzzy.h"
#include "a/pid_neuro.h"
typedef __float128 q_t;
#define EPS ((q_t)A_REAL_EPSILON)
#define TINY ((q_t)A_REAL_MIN * 0x1p20Q)
#define TOLK 16
#if A_REAL_TYPE + 0 == A_REAL_SINGLE
#define W "f32"
#elif A_REAL_TYPE + 0 == A_REAL_EXTEND
#define W "f80"
#else
#define W "f64"
#endif
#define LD(x) ((long double)(x))
enum { M_RUN, M_POS, M_INC };
static char const *const MODE[3] = {"run", "pos", "inc"};
static char const *const CTL[3] = {"pid", "pid_fuzzy", "pid_neuro"};
typedef struct { a_real summax, summin, outmax, outmin; } lim_t;
typedef struct { q_t sum, out, var, fdb, err; } qst;
typedef struct { qst s; q_t raw, mag_out, mag_sum; int integrated, inhibited, clamped; } qstep;
static qst const QZ = {0, 0, 0, 0, 0};
static inline q_t qabs(q_t x) { return x < 0 ? -x : x; }
static inline q_t qsat(q_t x, a_real lo, a_real hi) { return x <= lo ? (q_t)lo : x >= hi ? (q_t)hi : x; }
static qst qst_of(a_pid const *c) { qst s = {c->sum, c->out, c->var, c->fdb, c->err}; return s; }
static lim_t lim_of(a_pid const *c) { lim_t l = {c->summax, c->summin, c->outmax, c->outmin}; return l; }
static void lim_set(a_pid *c, lim_t const *l) { c->summax = l->summax; c->summin = l->summin; c->outmax = l->outmax; c->outmin = l->outmin; }
static void *blk(size_t n) { void *p = malloc(n ? n : 1); if (!p) { exit(2); } memset(p, 0xA5, n); return p; } /* exact size, garbage */
static char const *key(char *b, char const *fmt, ...) __attribute__((format(printf, 2, 3)));
static char const *key(char *b, char const *fmt, ...)
{
    va_list ap;
    va_start(ap, fmt);
    int n = vsnprintf(b, 150, fmt, ap);
    va_end(ap);
    snprintf(b + n, 8, "/" W);
    return b;
}
static char const *fmt_pid(char *b, a_pid const *c)
{
    snprintf(b, 640, "{kp=%La ki=%La kd=%La summax=%La summin=%La sum=%La outmax=%La outmin=%La out=%La var=%La fdb=%La err=%La}", LD(c->kp), LD(c->ki), LD(c->kd),
             LD(c->summax), LD(c->summin), LD(c->sum), LD(c->outmax), LD(c->outmin), LD(c->out), LD(c->var), LD(c->fdb), LD(c->err));
    return b;
}
/* a value in [-mag, mag] that uses every mantissa bit of the working type (64 bits in the long double build) */
static a_real full(vf_rng *r, double mag) { return ((a_real)vf_uniform(r, -1, 1) + (a_real)vf_uniform(r, -1, 1) * (a_real)0x1p-40) * (a_real)mag / (1 + (a_real)0x1p-40); }
static a_real g16(vf_rng *r, int lo, int hi) { return (a_real)vf_range(r, lo, hi) / 16; }
static a_real fullabs(vf_rng *r, double mag) { a_real x = full(r, mag); return x < 0 ? -x : x; }

/* the documented step in __float128 on state p (see h_pid.c); e and v are single working-type operations, as in the controller */
static qstep ref_pid(qst const *p, int mode, q_t kp, q_t ki, q_t kd, lim_t const *l, a_real set, a_real fdb)
{
    qstep o;
    a_real const e = set - fdb, v = (a_real)p->fdb - fdb;
    memset(&o, 0, sizeof(o));
    o.s = *p;
    if (mode == M_RUN) { o.raw = set; o.mag_out = qabs(o.raw); }
    else if (mode == M_POS)
    {
        q_t const inc = ki * e;
        int const outside = p->sum >= l->summax || p->sum <= l->summin, back = (p->sum > 0 && e < 0) || (p->sum < 0 && e > 0);
        o.mag_sum = qabs(p->sum) + qabs(inc);
        if (!outside || back) { o.s.sum = p->sum + inc; o.integrated = 1; }
        else if (inc != 0) { o.inhibited = 1; }
        o.raw = kp * e + o.s.sum + kd * v;
        o.mag_out = qabs(kp * e) + qabs(o.s.sum) + qabs(kd * v) + (o.integrated ? o.mag_sum : 0);
    }
    else
    {
        o.raw = p->out + kp * (e - p->err) + ki * e + kd * (v - p->var);
        o.mag_out = qabs(p->out) + qabs(kp) * (qabs(e) + qabs(p->err)) + qabs(ki * e) + qabs(kd) * (qabs(v) + qabs(p->var));
    }
    o.s.out = qsat(o.raw, l->outmin, l->outmax);
    o.clamped = o.s.out != o.raw;
    o.s.var = v; o.s.fdb = fdb; o.s.err = e;
    return o;
}

static void cell(int ctl, int mode, unsigned opr, unsigned order, a_pid const *c)
{
    unsigned m = (c->out == c->outmax) | (c->out == c->outmin) << 1 | (mode == M_POS && c->sum >= c->summax) << 2 | (mode == M_POS && c->sum <= c->summin) << 3;
    vf_distinct(vf_hash64(vf_hash64(vf_hash64(vf_hash64(vf_hash64(0xC12F, (uint64_t)ctl), (uint64_t)mode), opr), order), m));
    if (m & 3) { VF_COUNT("w-seen-output-at-a-limit"); }
    if (m & 12) { VF_COUNT("w-seen-integrator-at-or-beyond-a-clamp"); }
}

/* every clause that does not need a reference: returns 0 when the state is poisoned */
static int judge_common(int ctl, int mode, unsigned k, a_pid const *b, a_pid const *a, a_real ret, a_real xvar, a_real set, a_real fdb)
{
    char kb[160], b1[640], b2[640];
    a_real const e = set - fdb;
    ++vf.evals;
    VF_COUNT("w-out-within-limits");
    if (!(a->out >= a->outmin && a->out <= a->outmax))
    {
        vf_viol(key(kb, "%s_%s/output-outside-limits", CTL[ctl], MODE[mode]), "step %u (set=%La fdb=%La): before %s after %s", k, LD(set), LD(fdb), fmt_pid(b1, b), fmt_pid(b2, a));
        return 0;
    }
    VF_COUNT("w-state-finite");
    if (!(isfinite(a->sum) && isfinite(a->out) && isfinite(a->var) && isfinite(a->fdb) && isfinite(a->err) && isfinite(a->kp) && isfinite(a->ki) && isfinite(a->kd)))
    {
        vf_viol(key(kb, "%s_%s/state-not-finite", CTL[ctl], MODE[mode]), "step %u (set=%La fdb=%La): before %s after %s", k, LD(set), LD(fdb), fmt_pid(b1, b), fmt_pid(b2, a));
        return 0;
    }
    VF_COUNT("w-return-eq-out-field");
    if (!(ret == a->out)) { vf_viol(key(kb, "%s_%s/return-ne-out-field", CTL[ctl], MODE[mode]), "step %u: returned %La, out field %La", k, LD(ret), LD(a->out)); }
    VF_COUNT("w-limits-untouched");
    if (!(b->summax == a->summax && b->summin == a->summin && b->outmax == a->outmax && b->outmin == a->outmin))
    {
        vf_viol(key(kb, "%s_%s/limit-field-changed", CTL[ctl], MODE[mode]), "step %u: before %s after %s", k, fmt_pid(b1, b), fmt_pid(b2, a));
    }
    VF_COUNT("w-cached-fields-bitwise");
    if (!(a->fdb == fdb && a->err == e && a->var == xvar))
    {
        vf_viol(key(kb, "%s_%s/cached-field-ne-documented-term", CTL[ctl], MODE[mode]), "step %u (set=%La fdb=%La): expected err=%La fdb=%La var=%La; before %s after %s", k, LD(set), LD(fdb),
                LD(e), LD(fdb), LD(xvar), fmt_pid(b1, b), fmt_pid(b2, a));
    }
    VF_COUNT("w-integrator-clamp-clauses");
    if (mode != M_POS)
    {
        if (!(a->sum == b->sum)) { vf_viol(key(kb, "%s_%s/integrator-changed-by-non-positional-step", CTL[ctl], MODE[mode]), "step %u: sum %La -> %La", k, LD(b->sum), LD(a->sum)); }
    }
    else if (a->ki >= 0)
    {
        a_real const d = a->ki * a->err, s0 = b->sum, s1 = a->sum; /* the increment: the same working-type operation as the controller's */
        q_t const ad = qabs(d), u1 = qabs(s1) * EPS + TINY;
        if ((s0 >= b->summax && s1 > s0) || (s0 <= b->summin && s1 < s0))
        {
            vf_viol(key(kb, "%s_pos/integrator-moves-further-beyond-clamp", CTL[ctl]), "step %u (set=%La fdb=%La): sum %La -> %La; before %s", k, LD(set), LD(fdb), LD(s0), LD(s1), fmt_pid(b1, b));
        }
        if ((s1 > b->summax && s0 < b->summax && (q_t)s1 - b->summax > ad + u1) || (s1 < b->summin && s0 > b->summin && (q_t)b->summin - s1 > ad + u1))
        {
            vf_viol(key(kb, "%s_pos/integrator-overshoots-clamp-by-more-than-one-increment", CTL[ctl]), "step %u: sum %La -> %La, |ki*err|=%La; before %s", k, LD(s0), LD(s1), LD(ad), fmt_pid(b1, b));
        }
        if (s1 != s0 && !(s1 == s0 + d))
        {
            vf_viol(key(kb, "%s_pos/integrator-step-ne-ki-times-err", CTL[ctl]), "step %u: sum %La -> %La but ki*err=%La; before %s", k, LD(s0), LD(s1), LD(d), fmt_pid(b1, b));
        }
    }
    return 1;
}

static void judge_equation(int ctl, int mode, unsigned k, a_pid const *b, a_pid const *a, qstep const *o, int exact, a_real set, a_real fdb)
{
    char kb[160], b1[640], b2[640];
    q_t const ts = exact || !(mode == M_POS && o->integrated) ? 0 : TOLK * EPS * o->mag_sum + TINY, to = exact || mode == M_RUN ? 0 : TOLK * EPS * o->mag_out + TINY;
    q_t const ds = qabs((q_t)a->sum - o->s.sum), dout = qabs((q_t)a->out - o->s.out);
    if (exact) { VF_COUNT("w-equation-exact"); } else { VF_COUNT("w-equation-onestep"); }
    if (!exact && ts > 0) { VF_MAX("w-onestep-sum-error/tolerance", (double)(ds / ts)); }
    if (!exact && to > 0) { VF_MAX("w-onestep-out-error/tolerance", (double)(dout / to)); }
    if (!(ds <= ts))
    {
        vf_viol(key(kb, "%s_%s/sum-ne-documented-equation", CTL[ctl], MODE[mode]), "step %u (%s) set=%La fdb=%La: integrator %La, reference %.24Lg (tolerance %.3Lg, integrated=%d inhibited=%d); before %s after %s", k,
                exact ? "exact regime, running reference" : "one-step reference", LD(set), LD(fdb), LD(a->sum), LD(o->s.sum), LD(ts), o->integrated, o->inhibited, fmt_pid(b1, b), fmt_pid(b2, a));
    }
    if (!(dout <= to))
    {
        vf_viol(key(kb, "%s_%s/out-ne-documented-equation", CTL[ctl], MODE[mode]), "step %u (%s) set=%La fdb=%La: output %La, reference %.24Lg (unclamped %.24Lg, tolerance %.3Lg); before %s after %s", k,
                exact ? "exact regime, running reference" : "one-step reference", LD(set), LD(fdb), LD(a->out), LD(o->s.out), LD(o->raw), LD(to), fmt_pid(b1, b), fmt_pid(b2, a));
    }
}
static void judge_zeroed(int ctl, a_pid const *c, char const *how)
{
    char kb[160], b1[640];
    VF_COUNT("w-zero-state-fields");
    if (!(c->sum == 0 && c->out == 0 && c->var == 0 && c->fdb == 0 && c->err == 0)) { vf_viol(key(kb, "%s_zero/state-field-not-cleared", CTL[ctl]), "after %s: %s", how, fmt_pid(b1, c)); }
}

/* limits: summin <= 0 <= summax, outmin <= outmax; integers in the exact regime; "unlimited" = +-A_REAL_MAX or a large finite value */
static void gen_limits(vf_rng *r, int exact, double R, lim_t *l)
{
    a_real const big = vf_chance(r, 1, 3) ? A_REAL_MAX : exact ? (a_real)0x1p20 : (a_real)1e6;
    double omax = 0, omin = 0, smax = 0, smin = 0;
    int const scen = (int)vf_below(r, 5), ot = scen == 1 || scen == 3, st = scen == 2 || scen == 3;
    int o_set = ot, s_set = st;
    if (ot) { omax = vf_uniform(r, 0, 3 * R) + 1; omin = -(vf_uniform(r, 0, 3 * R) + 1); }
    if (st) { smax = vf_uniform(r, 0, 6 * R) + 1; smin = -(vf_uniform(r, 0, 6 * R) + 1); }
    if (scen == 4)
    {
        switch (vf_below(r, 6))
        {
        case 0: s_set = 1; smax = 0; smin = -(vf_uniform(r, 0, 4 * R) + 1); break;
        case 1: s_set = 1; smin = 0; smax = vf_uniform(r, 0, 4 * R) + 1; break;
        case 2: s_set = 1; smin = smax = 0; break;
        case 3: o_set = 1; omin = omax = vf_uniform(r, -R, R); break;
        case 4: o_set = 1; omin = vf_uniform(r, 1, R + 1); omax = omin + vf_uniform(r, 0, R); break;
        default: o_set = 1; omax = -vf_uniform(r, 1, R + 1); omin = omax - vf_uniform(r, 0, R); break;
        }
    }
    if (exact) { omax = rint(omax); omin = rint(omin); smax = rint(smax); smin = rint(smin); }
    l->outmax = o_set ? (a_real)omax : big; l->outmin = o_set ? (a_real)omin : -big;
    l->summax = s_set ? (a_real)smax : big; l->summin = s_set ? (a_real)smin : -big;
    if (l->outmin > l->outmax) { a_real t = l->outmin; l->outmin = l->outmax; l->outmax = t; }
}
/* power-of-two scaling of a whole history (inputs and finite limits): the equations are homogeneous, so the exact regime stays exact and an
   absolute threshold or epsilon hidden in the controller shows */
static a_real gen_scale(vf_rng *r)
{
    static int const K[5] = {-60, -30, -12, 30, 40};
    return vf_chance(r, 1, 2) ? (a_real)1 : (a_real)ldexp(1.0, K[vf_below(r, 5)]);
}
static void lim_scale(lim_t *l, a_real sc)
{
    a_real *f[4] = {&l->summax, &l->summin, &l->outmax, &l->outmin};
    for (int i = 0; i < 4; ++i) { if (*f[i] != A_REAL_MAX && *f[i] != -A_REAL_MAX) { *f[i] *= sc; } }
}
static a_pid *pid_new(a_real kp, a_real ki, a_real kd, lim_t const *l)
{
    a_pid *c = (a_pid *)blk(sizeof(a_pid));
    a_pid_set_kpid(c, kp, ki, kd);
    lim_set(c, l);
    a_pid_init(c);
    VF_COUNT("w-init-on-garbage");
    judge_zeroed(0, c, "a_pid_init on a garbage-filled struct");
    if (!(c->kp == kp && c->ki == ki && c->kd == kd)) { vf_viol("pid_init/gains-changed/" W, "a_pid_set_kpid + a_pid_init: gains do not read back"); }
    return c;
}
static a_real call_pid(a_pid *c, int mode, a_real set, a_real fdb) { return mode == M_RUN ? a_pid_run(c, set, fdb) : mode == M_POS ? a_pid_pos(c, set, fdb) : a_pid_inc(c, set, fdb); }
static int next_mode(vf_rng *r, int cur, unsigned den, int mask)
{
    if (den && vf_below(r, den) == 0) { do { cur = (int)vf_below(r, 3); } while (!(mask >> cur & 1)); }
    return cur;
}
/* inputs: iid / walk / long one-sided error then reversal; integers in the exact regime, full-mantissa reals otherwise */
static void gen_input(vf_rng *r, int cls, int exact, double R, unsigned k, unsigned L, a_real *set, a_real *fdb)
{
    if (cls == 0 || k == 0) { *set = full(r, R); *fdb = vf_chance(r, 1, 8) ? *set : full(r, R); }
    else if (cls == 1) { if (vf_chance(r, 1, 20)) { *set = full(r, R); } *fdb += full(r, R / 8 + exact); }
    else { *set = (a_real)(k < L / 2 ? R : k < 3 * L / 4 ? -R : R / 4); if (vf_chance(r, 1, 4)) { *fdb = full(r, R / 16 + exact); } }
    if (*fdb > (a_real)R) { *fdb = (a_real)R; }
    if (*fdb < (a_real)-R) { *fdb = (a_real)-R; }
    if (exact) { *set = (a_real)rintl(LD(*set)); *fdb = (a_real)rintl(LD(*fdb)); }
}

/* ------------------------------------------------------------------ plain PID: one controller, mode switches, zero, retune */
static void case_pid(vf_rng *r, int exact)
{
    unsigned const L = 1 + (unsigned)vf_below(r, 96), psw = vf_chance(r, 1, 3) ? 0 : (unsigned)vf_range(r, 2, 40);
    double const R = exact ? (double)vf_range(r, 1, 30) : vf_logu(r, -2, 3);
    int const cls = (int)vf_below(r, 3);
    int mode = (int)vf_below(r, 3);
    a_real const sc = gen_scale(r);
    a_real kp, ki, kd, set0 = 0, fdb0 = 0, set, fdb;
    lim_t lim;
    a_pid *c;
    qst ref = QZ;
    if (exact) { kp = g16(r, -64, 64); ki = vf_chance(r, 1, 6) ? 0 : g16(r, 0, 64); kd = vf_chance(r, 1, 4) ? 0 : g16(r, -64, 64); }
    else { kp = full(r, vf_logu(r, -3, 3)); ki = vf_chance(r, 1, 6) ? 0 : fullabs(r, vf_logu(r, -3, 3)); kd = vf_chance(r, 1, 4) ? 0 : full(r, vf_logu(r, -3, 3)); }
    gen_limits(r, exact, R, &lim);
    lim_scale(&lim, sc);
    vf_log("plain a_pid[" W "] %s regime: kp=%La ki=%La kd=%La summax=%La summin=%La outmax=%La outmin=%La, %u steps, input class %d amplitude %g x scale %La", exact ? "exact" : "one-step", LD(kp), LD(ki), LD(kd),
           LD(lim.summax), LD(lim.summin), LD(lim.outmax), LD(lim.outmin), L, cls, R, LD(sc));
    c = pid_new(kp, ki, kd, &lim);
    for (unsigned k = 0; k < L && !vf.case_viol; ++k)
    {
        a_pid b;
        a_real ret;
        qstep o;
        qst p;
        if (k && vf_below(r, 60) == 0)
        {
            vf_log("k=%u a_pid_zero", k);
            a_pid_zero(c);
            judge_zeroed(0, c, "a_pid_zero");
            ref = QZ; /* "behaves as freshly initialised": the running reference restarts from the fresh state */
            VF_COUNT("w-zero-mid-history");
        }
        if (vf_below(r, 80) == 0)
        {
            kp = exact ? g16(r, -64, 64) : full(r, 100); ki = exact ? g16(r, 0, 64) : fullabs(r, 100);
            vf_log("k=%u a_pid_set_kpid(kp=%La ki=%La kd=%La)", k, LD(kp), LD(ki), LD(kd));
            a_pid_set_kpid(c, kp, ki, kd);
        }
        mode = next_mode(r, mode, psw, 7);
        gen_input(r, cls, exact, R, k, L, &set0, &fdb0);
        set = set0 * sc; fdb = fdb0 * sc;
        b = *c;
        p = qst_of(&b);
        o = ref_pid(exact ? &ref : &p, mode, c->kp, c->ki, c->kd, &lim, set, fdb);
        vf_log("k=%u a_pid_%s(set=%La, fdb=%La)", k, MODE[mode], LD(set), LD(fdb));
        ret = call_pid(c, mode, set, fdb);
        if (!judge_common(0, mode, k, &b, c, ret, b.fdb - fdb, set, fdb)) { break; }
        VF_COUNT("w-gains-untouched");
        if (!(b.kp == c->kp && b.ki == c->ki && b.kd == c->kd)) { vf_viol("pid/gain-field-changed-by-step/" W, "step %u", k); }
        if (exact && (qabs(o.s.sum) >= 0x1p19Q * sc || qabs(o.s.out) >= 0x1p19Q * sc)) { VF_COUNT("w-exactness-guard-tripped"); break; }
        judge_equation(0, mode, k, &b, c, &o, exact, set, fdb);
        if (sc != 1) { VF_COUNT("w-scaled-histories-steps"); }
        ref = o.s;
        if (o.inhibited) { VF_COUNT("w-seen-integration-suspended"); }
        if (o.clamped) { VF_COUNT("w-seen-output-clamped"); }
        cell(0, mode, 7, 0, c);
    }
    if (vf_want_sample() && L > 40 && !vf.case_viol)
    {
        vf_sample("plain a_pid[" W "] %s: kp=%Lg ki=%Lg kd=%Lg sum[%Lg,%Lg] out[%Lg,%Lg], %u steps with run/pos/inc switches: %s", exact ? "integer inputs" : "full-mantissa inputs", LD(kp), LD(ki), LD(kd),
                  LD(lim.summin), LD(lim.summax), LD(lim.outmin), LD(lim.outmax), L, exact ? "sum/out/var/fdb/err == __float128 running reference after every step" : "sum/out within 16 eps sum|terms| of the one-step reference");
    }
    free(c);
}

/* exact regime: positional and incremental controller on one history: bitwise equal, and equal to the closed form, until a limit is active */
static void case_pair(vf_rng *r)
{
    unsigned const L = 1 + (unsigned)vf_below(r, 96);
    double const R = (double)vf_range(r, 1, 30);
    int const cls = (int)vf_below(r, 3);
    a_real const kp = g16(r, -64, 64), ki = vf_chance(r, 1, 6) ? 0 : g16(r, 0, 64), kd = vf_chance(r, 1, 4) ? 0 : g16(r, -64, 64);
    a_real const sc = gen_scale(r);
    a_real set0 = 0, fdb0 = 0, set, fdb;
    lim_t lim;
    a_pid *A, *B;
    qst ra = QZ, rb = QZ;
    q_t esum = 0;
    int active = 0;
    gen_limits(r, 1, R * (double)vf_range(r, 1, 32), &lim);
    lim_scale(&lim, sc);
    vf_log("a_pid_pos vs a_pid_inc[" W "]: kp=%La ki=%La kd=%La summax=%La summin=%La outmax=%La outmin=%La, %u steps, scale %La", LD(kp), LD(ki), LD(kd), LD(lim.summax), LD(lim.summin), LD(lim.outmax), LD(lim.outmin), L, LD(sc));
    A = pid_new(kp, ki, kd, &lim);
    B = pid_new(kp, ki, kd, &lim);
    for (unsigned k = 0; k < L && !vf.case_viol; ++k)
    {
        a_pid a0, b0;
        a_real ya, yb;
        qstep oa, ob;
        gen_input(r, cls, 1, R, k, L, &set0, &fdb0);
        set = set0 * sc; fdb = fdb0 * sc;
        a0 = *A; b0 = *B;
        oa = ref_pid(&ra, M_POS, kp, ki, kd, &lim, set, fdb);
        ob = ref_pid(&rb, M_INC, kp, ki, kd, &lim, set, fdb);
        vf_log("k=%u a_pid_pos(A)/a_pid_inc(B) (set=%La, fdb=%La)", k, LD(set), LD(fdb));
        ya = a_pid_pos(A, set, fdb);
        yb = a_pid_inc(B, set, fdb);
        if (!judge_common(0, M_POS, k, &a0, A, ya, a0.fdb - fdb, set, fdb) || !judge_common(0, M_INC, k, &b0, B, yb, b0.fdb - fdb, set, fdb)) { break; }
        if (qabs(oa.s.sum) >= 0x1p19Q * sc || qabs(oa.s.out) >= 0x1p19Q * sc || qabs(ob.s.out) >= 0x1p19Q * sc) { VF_COUNT("w-exactness-guard-tripped"); break; }
        judge_equation(0, M_POS, k, &a0, A, &oa, 1, set, fdb);
        judge_equation(0, M_INC, k, &b0, B, &ob, 1, set, fdb);
        ra = oa.s; rb = ob.s;
        if (oa.inhibited || oa.clamped || ob.clamped) { if (!active) { VF_COUNT("w-seen-first-limit-activation-in-pos-inc-pair"); } active = 1; }
        if (!active)
        {
            q_t closed;
            esum += (q_t)set - fdb;
            closed = (q_t)kp * ((q_t)set - fdb) + (q_t)ki * esum + (q_t)kd * ((q_t)a0.fdb - fdb);
            VF_COUNT("w-pos-eq-inc-while-no-limit-active");
            if (!(ya == yb)) { vf_viol("pid/positional-ne-incremental-while-no-limit-active/" W, "step %u (set=%La fdb=%La): pos %La, inc %La", k, LD(set), LD(fdb), LD(ya), LD(yb)); }
            VF_COUNT("w-closed-form-while-no-limit-active");
            if (!((q_t)ya == closed && (q_t)yb == closed))
            {
                vf_viol("pid/output-ne-closed-form-while-no-limit-active/" W, "step %u (set=%La fdb=%La): Kp e + Ki sum e + Kd [fdb(k-1)-fdb(k)] = %Lg, pos %La, inc %La", k, LD(set), LD(fdb), LD(closed), LD(ya), LD(yb));
            }
        }
        cell(0, M_POS, 7, 0, A);
        cell(0, M_INC, 7, 0, B);
    }
    free(A);
    free(B);
}

/* ------------------------------------------------------------------ fuzzy PID */
typedef struct { a_pid_fuzzy *c; void *bf; a_real *me, *mec, *mk[3], base[3]; unsigned n, N, opr; size_t bfsz; int lo, hw; a_real cmax; } fz_t;
/* order n, triangles of half-width hw centred on lo..lo+n-1, consequents k/16, scratch for N simultaneously active sets */
static void fz_new(fz_t *f, vf_rng *r, unsigned n, int hw, unsigned N, unsigned opr, lim_t const *l, int dense)
{
    char kb[160];
    memset(f, 0, sizeof(*f));
    f->n = n; f->hw = hw; f->opr = opr; f->lo = -(int)(n - 1) / 2;
#if A_REAL_TYPE + 0 == A_REAL_EXTEND
    N += N & 1; /* see the file header */
#endif
    f->N = N;
    f->me = (a_real *)blk(sizeof(a_real) * 4 * n);
    f->mec = (a_real *)blk(sizeof(a_real) * 4 * n);
    for (unsigned i = 0; i < n; ++i)
    {
        a_real const ci = (a_real)(f->lo + (int)i);
        f->me[4 * i] = f->mec[4 * i] = (a_real)A_MF_TRI;
        f->me[4 * i + 1] = f->mec[4 * i + 1] = ci - (a_real)hw;
        f->me[4 * i + 2] = f->mec[4 * i + 2] = ci;
        f->me[4 * i + 3] = f->mec[4 * i + 3] = ci + (a_real)hw;
    }
    f->base[0] = g16(r, -32, 32); f->base[1] = vf_chance(r, 1, 6) ? 0 : g16(r, 0, 32); f->base[2] = vf_chance(r, 1, 4) ? 0 : g16(r, -32, 32);
    for (int t = 0; t < 3; ++t)
    {
        if (!dense && vf_chance(r, 1, 8)) { continue; } /* NULL table: that gain is not scheduled */
        f->mk[t] = (a_real *)blk(sizeof(a_real) * n * n);
        for (unsigned i = 0; i < n * n; ++i)
        {
            f->mk[t][i] = t == 1 ? g16(r, -(int)(f->base[1] * 16), 32) : g16(r, -48, 48); /* effective ki = base + consequent >= 0 */
            if (A_ABS(f->mk[t][i]) > f->cmax) { f->cmax = A_ABS(f->mk[t][i]); }
        }
    }
    f->bfsz = A_PID_FUZZY_BFUZZ((size_t)N);
    f->bf = blk(f->bfsz);
    f->c = (a_pid_fuzzy *)blk(sizeof(a_pid_fuzzy));
    lim_set(&f->c->pid, l);
    a_pid_fuzzy_set_opr(f->c, opr);
    a_pid_fuzzy_set_rule(f->c, n, f->me, f->mec, f->mk[0], f->mk[1], f->mk[2]);
    a_pid_fuzzy_set_kpid(f->c, f->base[0], f->base[1], f->base[2]);
    a_pid_fuzzy_set_bfuzz(f->c, f->bf, N);
    a_pid_fuzzy_init(f->c);
    VF_COUNT("w-init-on-garbage");
    judge_zeroed(1, &f->c->pid, "a_pid_fuzzy_init on a garbage-filled struct");
    VF_COUNT("w-fuzzy-scratch-layout");
    {
        char const *b0 = (char const *)f->bf, *b1 = b0 + f->bfsz, *i0 = (char const *)f->c->idx, *i1 = i0 + 2 * N * sizeof(unsigned), *v0 = (char const *)f->c->val, *v1 = v0 + (size_t)(2 + N) * N * sizeof(a_real);
        if (f->bfsz != 2 * N * sizeof(unsigned) + sizeof(a_real) * N * (N + 2) || a_pid_fuzzy_bfuzz(f->c) != f->bf || f->c->nfuzz != N || i0 < b0 || i1 > b1 || v0 < b0 || v1 > b1 || (i0 < v1 && v0 < i1))
        {
            vf_viol(key(kb, "pid_fuzzy/scratch-layout-ne-documented-sizes"), "N=%u: A_PID_FUZZY_BFUZZ=%zu (2N unsigned + (2+N)N reals = %zu), block %p, idx at +%td, val at +%td", N, f->bfsz,
                    2 * N * sizeof(unsigned) + sizeof(a_real) * N * (N + 2), f->bf, i0 - b0, v0 - b0);
        }
    }
}
static void fz_free(fz_t *f)
{
    a_pid_fuzzy const *c = f->c;
    VF_COUNT("w-fuzzy-configuration-untouched");
    if (c->me != f->me || c->mec != f->mec || c->mkp != f->mk[0] || c->mki != f->mk[1] || c->mkd != f->mk[2] || (void *)c->idx != f->bf || c->nrule != f->n || c->nfuzz != f->N ||
        c->opr != a_pid_fuzzy_opr(f->opr) || !(c->kp == f->base[0] && c->ki == f->base[1] && c->kd == f->base[2]))
    {
        vf_viol("pid_fuzzy/configuration-field-changed-by-step/" W, "order %u operator %u: a table pointer, the scratch pointer, nrule, nfuzz, the operator or a base gain changed", f->n, f->opr);
    }
    free(f->c); free(f->bf); free(f->me); free(f->mec); free(f->mk[0]); free(f->mk[1]); free(f->mk[2]);
}
/* reconfiguration between two steps (mirror of fz_reconfigure in h_pid.c, reduced to what matters in every width; reasoning there): the
   effective gains are base + tuned offset, recomputed by every step from the configuration in force, so after
     - a_pid_fuzzy_set_rule with the same membership tables and another NULL pattern of freshly allocated consequent tables (the replaced
       tables are freed: a retained pointer is a use-after-free under ASan),
     - a_pid_fuzzy_set_kpid or a write to the public base fields kp / ki / kd,
     - a write to the gains of the embedded plain controller (pid.kp / ki / kd, which the next fuzzy step overwrites with base + offset)
   the next step must give pid.k? == base in force + consequent in force (exact regime: bitwise), and == base for a gain whose table is NULL */
static void fz_reconf(fz_t *f, vf_rng *r, unsigned k)
{
    a_pid_fuzzy *const c = f->c;
    a_pid const snap = c->pid;
    unsigned const ev = (unsigned)vf_below(r, 5);
    if (ev < 2)
    {
        unsigned const pat = (unsigned)vf_below(r, 8);
        a_real *nm[3];
        for (int t = 0; t < 3; ++t)
        {
            nm[t] = NULL;
            if (!(pat >> t & 1)) { continue; }
            nm[t] = (a_real *)blk(sizeof(a_real) * f->n * f->n);
            for (unsigned i = 0; i < f->n * f->n; ++i)
            {
                nm[t][i] = t == 1 ? g16(r, -(int)(f->base[1] * 16), 32) : g16(r, -48, 48); /* effective ki = base + consequent >= 0 */
                if (A_ABS(nm[t][i]) > f->cmax) { f->cmax = A_ABS(nm[t][i]); }
            }
        }
        vf_log("k=%u a_pid_fuzzy_set_rule: same order %u and membership tables, tables %c%c%c (were %c%c%c)", k, f->n, nm[0] ? 'p' : '-', nm[1] ? 'i' : '-', nm[2] ? 'd' : '-', f->mk[0] ? 'p' : '-',
               f->mk[1] ? 'i' : '-', f->mk[2] ? 'd' : '-');
        a_pid_fuzzy_set_rule(c, f->n, f->me, f->mec, nm[0], nm[1], nm[2]);
        for (int t = 0; t < 3; ++t)
        {
            if (f->mk[t] && !nm[t]) { VF_COUNT("w-fuzzy-rule-swap-drops-a-tuned-table"); }
            free(f->mk[t]);
            f->mk[t] = nm[t];
        }
        VF_COUNT("w-fuzzy-rule-base-swapped-mid-history");
    }
    else if (ev < 4)
    {
        int lo16 = 0;
        a_real nb[3];
        if (f->mk[1]) { for (unsigned i = 0; i < f->n * f->n; ++i) { int const v = -(int)(f->mk[1][i] * 16); if (v > lo16) { lo16 = v; } } }
        nb[0] = g16(r, -32, 32); nb[1] = g16(r, lo16, 32); nb[2] = vf_chance(r, 1, 4) ? 0 : g16(r, -32, 32);
        if (ev == 2)
        {
            vf_log("k=%u a_pid_fuzzy_set_kpid(%La, %La, %La)", k, LD(nb[0]), LD(nb[1]), LD(nb[2]));
            a_pid_fuzzy_set_kpid(c, nb[0], nb[1], nb[2]);
            memcpy(f->base, nb, sizeof nb);
        }
        else
        {
            unsigned const mask = 1 + (unsigned)vf_below(r, 7);
            vf_log("k=%u write to the public base fields%s%s%s: %La %La %La", k, mask & 1 ? " kp" : "", mask & 2 ? " ki" : "", mask & 4 ? " kd" : "", LD(nb[0]), LD(nb[1]), LD(nb[2]));
            if (mask & 1) { c->kp = f->base[0] = nb[0]; }
            if (mask & 2) { c->ki = f->base[1] = nb[1]; }
            if (mask & 4) { c->kd = f->base[2] = nb[2]; }
        }
        VF_COUNT("w-fuzzy-base-gain-changed-mid-history");
    }
    else
    {
        vf_log("k=%u write to ctx->pid.kp/ki/kd of the embedded plain controller (overwritten by the next fuzzy step)", k);
        /* tuned gains only (see h_pid.c): an untuned gain may legitimately live in pid.k? from the setters on */
        if (f->mk[0]) { c->pid.kp = (a_real)1234.5; }
        if (f->mk[1]) { c->pid.ki = (a_real)-77.25; }
        if (f->mk[2]) { c->pid.kd = (a_real)0.03125; }
        VF_COUNT("w-fuzzy-embedded-pid-gains-scribbled");
    }
    if (!(snap.sum == c->pid.sum && snap.out == c->pid.out && snap.var == c->pid.var && snap.fdb == c->pid.fdb && snap.err == c->pid.err))
    {
        vf_viol("pid_fuzzy/state-or-limit-changed-by-reconfiguration/" W, "before step %u: a setter changed a state field", k);
    }
}

static a_real call_fuzzy(a_pid_fuzzy *c, int mode, a_real set, a_real fdb)
{
    return mode == M_RUN ? a_pid_fuzzy_run(c, set, fdb) : mode == M_POS ? a_pid_fuzzy_pos(c, set, fdb) : a_pid_fuzzy_inc(c, set, fdb);
}

/* grid = 1: integer e/ec, half-width 1: table look-up, whole controller exact.  grid = 4: quarter grid, half-width 1 or 2: weighted mean + one-step */
static void case_fuzzy(vf_rng *r, uint64_t q, int grid)
{
    unsigned const opr = (unsigned)(q % 7), n = 1 + (unsigned)(q / 7 % 7), L = 8 + (unsigned)vf_below(r, 72), psw = vf_chance(r, 1, 3) ? 0 : (unsigned)vf_range(r, 2, 30);
    int const hw = grid == 1 ? 1 : 1 + (int)(q / 49 % 2), exact = grid == 1;
    int mode = (int)vf_below(r, 3), e4;
    a_real (*op)(a_real, a_real) = a_pid_fuzzy_opr(opr);
    int const rc = q % 3 == 2; /* a third of the histories are reconfigured between steps (about every 6th step) */
    unsigned nrec = 0;
    lim_t lim;
    fz_t f;
    qst ref = QZ;
    a_real fdb = 0;
    gen_limits(r, 1, 4.0 * (double)(n + 4), &lim);
    fz_new(&f, r, n, hw, exact ? 1 : hw == 1 ? 2 : 4, opr, &lim, 0);
    e4 = (int)vf_range(r, grid * (f.lo - 2), grid * (f.lo + (int)n + 1));
    vf_log("a_pid_fuzzy[" W "] %s: operator %u order %u half-width %d scratch N=%u (%zu bytes) base kp=%La ki=%La kd=%La tables %c%c%c summax=%La summin=%La outmax=%La outmin=%La, %u steps", exact ? "table look-up (exact)" : "quarter grid",
           opr, n, hw, f.N, f.bfsz, LD(f.base[0]), LD(f.base[1]), LD(f.base[2]), f.mk[0] ? 'p' : '-', f.mk[1] ? 'i' : '-', f.mk[2] ? 'd' : '-', LD(lim.summax), LD(lim.summin), LD(lim.outmax), LD(lim.outmin), L);
    for (unsigned k = 0; k < L && !vf.case_viol; ++k)
    {
        a_pid b;
        a_real set, e, ec, ret, got[3];
        q_t num[3] = {0, 0, 0}, den = 0, kq[3];
        unsigned na = 0, nb = 0;
        qstep o;
        qst p;
        if (k && vf_below(r, 50) == 0)
        {
            vf_log("k=%u a_pid_fuzzy_zero", k);
            a_pid_fuzzy_zero(f.c);
            judge_zeroed(1, &f.c->pid, "a_pid_fuzzy_zero");
            ref = QZ;
            VF_COUNT("w-zero-mid-history");
        }
        if (rc && vf_below(r, 6) == 0) { fz_reconf(&f, r, k); ++nrec; }
        mode = next_mode(r, mode, psw, 7);
        /* the error walks over the universe of the sets (and a little beyond, where nothing fires) */
        e4 += (int)vf_range(r, -2 * grid, 2 * grid);
        if (e4 < grid * (f.lo - 3)) { e4 = grid * (f.lo - 3); }
        if (e4 > grid * (f.lo + (int)n + 2)) { e4 = grid * (f.lo + (int)n + 2); }
        if (vf_chance(r, 1, 4)) { fdb = (a_real)vf_range(r, -4 * grid, 4 * grid) / (a_real)grid; }
        e = (a_real)e4 / (a_real)grid;
        set = e + fdb; /* exact: small dyadic values */
        b = f.c->pid;
        ec = e - b.err;
        for (unsigned i = 0; i < n; ++i)
        {
            a_real const mi = a_mf_tri(e, f.me[4 * i + 1], f.me[4 * i + 2], f.me[4 * i + 3]);
            if (!(mi > 0)) { continue; }
            ++na;
            nb = 0;
            for (unsigned j = 0; j < n; ++j)
            {
                a_real const mj = a_mf_tri(ec, f.mec[4 * j + 1], f.mec[4 * j + 2], f.mec[4 * j + 3]);
                q_t w;
                if (!(mj > 0)) { continue; }
                ++nb;
                w = exact ? (q_t)(mi == 1 && mj == 1) : (q_t)op(mi, mj); /* exact regime: the degrees are 1 and every operator maps (1,1) to 1 */
                den += w;
                for (int t = 0; t < 3; ++t) { num[t] += f.mk[t] ? w * (q_t)f.mk[t][i * n + j] : 0; }
            }
        }
        if (na > f.N || nb > f.N || (exact && na * nb > 1)) { vf_viol("harness/fuzzy-plan-activates-more-sets-than-planned/" W, "na=%u nb=%u N=%u", na, nb, f.N); break; }
        for (int t = 0; t < 3; ++t) { kq[t] = (q_t)f.base[t] + (na && nb && den > 0 ? num[t] / den : 0); }
        vf_log("k=%u a_pid_fuzzy_%s(set=%La, fdb=%La) e=%La ec=%La active %u x %u", k, MODE[mode], LD(set), LD(fdb), LD(e), LD(ec), na, nb);
        ret = call_fuzzy(f.c, mode, set, fdb);
        if (!judge_common(1, mode, k, &b, &f.c->pid, ret, b.fdb - fdb, set, fdb)) { break; }
        got[0] = f.c->pid.kp; got[1] = f.c->pid.ki; got[2] = f.c->pid.kd;
        if (exact) { VF_COUNT("w-fuzzy-table-lookup-gains-exact"); } else { VF_COUNT("w-fuzzy-gains-weighted-mean"); }
        if (!(na && nb)) { VF_COUNT("w-seen-fuzzy-no-set-fires"); }
        for (int t = 0; t < 3; ++t)
        {
            /* a gain without rule table is not tuned: effective gain == base gain in force, in every regime */
            if (f.mk[t]) { continue; }
            VF_COUNT("w-fuzzy-null-table-gain-equals-base");
            if (!(got[t] == f.base[t]) || !((t == 0 ? f.c->kp : t == 1 ? f.c->ki : f.c->kd) == f.base[t]))
            {
                vf_viol(nrec ? "pid_fuzzy/untuned-gain-ne-base-after-reconfiguration/" W : "pid_fuzzy/untuned-gain-ne-base/" W,
                        "step %u a_pid_fuzzy_%s(set=%La, fdb=%La): the rule table of k%c is NULL, base gain in force %La, pid.k%c=%La after the step (%u reconfigurations so far)", k, MODE[mode],
                        LD(set), LD(fdb), "pid"[t], LD(f.base[t]), "pid"[t], LD(got[t]), nrec);
            }
        }
        for (int t = 0; t < 3; ++t)
        {
            q_t const tol = exact ? 0 : 8 * EPS * (qabs(f.base[t]) + (q_t)f.cmax + 1) * (q_t)(na * nb + 2);
            if (!(qabs((q_t)got[t] - kq[t]) <= tol))
            {
                char kb[160];
                vf_viol(key(kb, "pid_fuzzy/gain-ne-mean-of-centres/k%c", "pid"[t]), "step %u a_pid_fuzzy_%s(set=%La, fdb=%La): e=%La ec=%La, %u x %u rules fire (operator %u order %u half-width %d): pid.k%c=%La, base %La + weighted mean = %.24Lg",
                        k, MODE[mode], LD(set), LD(fdb), LD(e), LD(ec), na, nb, opr, n, hw, "pid"[t], LD(got[t]), LD(f.base[t]), LD(kq[t]));
            }
        }
        p = qst_of(&b);
        if (exact) { o = ref_pid(&ref, mode, kq[0], kq[1], kq[2], &lim, set, fdb); }
        else { o = ref_pid(&p, mode, got[0], got[1], got[2], &lim, set, fdb); }
        if (exact && (qabs(o.s.sum) >= 0x1p19Q || qabs(o.s.out) >= 0x1p19Q)) { VF_COUNT("w-exactness-guard-tripped"); break; }
        judge_equation(1, mode, k, &b, &f.c->pid, &o, exact, set, fdb);
        ref = o.s;
        cell(1, mode, opr, n, &f.c->pid);
    }
    if (vf_want_sample() && L > 40 && !vf.case_viol && q % 5 == 0)
    {
        vf_sample("a_pid_fuzzy[" W "] %s: operator %u, order %u, exact-size scratch A_PID_FUZZY_BFUZZ(%u) = %zu bytes, %u steps with run/pos/inc switches: %s", exact ? "integer grid" : "quarter grid", opr, n, f.N, f.bfsz, L,
                  exact ? "gains == base + consequent[e set][ec set], sum/out/var/fdb/err == __float128 running reference" : "gains within tolerance of the binary128 weighted mean, sum/out within 16 eps sum|terms| of the one-step reference");
    }
    fz_free(&f);
}

/* activation threshold in the working type: a lone set with a tiny degree (see the file header) */
static void case_threshold(vf_rng *r, uint64_t q)
{
    unsigned const opr = (unsigned)(q % 7);
    lim_t lim = {A_REAL_MAX, -A_REAL_MAX, A_REAL_MAX, -A_REAL_MAX};
    fz_t f;
    fz_new(&f, r, 2, 1, 1, opr, &lim, 1);
    /* e sets tri(0,1,2) and tri(4,5,6); ec sets: a plateau trap(-8,-4,4,8) (degree 1 for every ec used here) and tri(20,21,22) */
    f.me[1] = 0; f.me[2] = 1; f.me[3] = 2; f.me[5] = 4; f.me[6] = 5; f.me[7] = 6;
    free(f.mec);
    f.mec = (a_real *)blk(sizeof(a_real) * 9);
    f.mec[0] = (a_real)A_MF_TRAP; f.mec[1] = -8; f.mec[2] = -4; f.mec[3] = 4; f.mec[4] = 8; f.mec[5] = (a_real)A_MF_TRI; f.mec[6] = 20; f.mec[7] = 21; f.mec[8] = 22;
    a_pid_fuzzy_set_rule(f.c, 2, f.me, f.mec, f.mk[0], f.mk[1], f.mk[2]);
    for (int fire = 0; fire < 2; ++fire)
    {
        /* degree of tri(0,1,2) at x in (0,1) is x itself: (x-0)/(1-0) */
        a_real const m = fire ? A_REAL_EPSILON * (a_real)vf_range(r, 4, 64) : A_REAL_EPSILON / (a_real)(4 << vf_below(r, 8));
        a_real got[3];
        a_pid_fuzzy_zero(f.c);
        vf_log("threshold[" W "] operator %u: a_pid_fuzzy_pos(set=%La, fdb=0): degree of the only e set = %La (%s eps = %La)", opr, LD(m), LD(m), fire ? ">= 4" : "<= 1/4", LD((a_real)A_REAL_EPSILON));
        (void)a_pid_fuzzy_pos(f.c, m, 0);
        ++vf.evals;
        got[0] = f.c->pid.kp; got[1] = f.c->pid.ki; got[2] = f.c->pid.kd;
        VF_COUNT("w-fuzzy-threshold-lone-set");
        for (int t = 0; t < 3; ++t)
        {
            q_t const want = (q_t)f.base[t] + (fire ? (q_t)f.mk[t][0] : 0), tol = fire ? 4 * EPS * (qabs(f.base[t]) + qabs(f.mk[t][0]) + 1) : 0;
            if (!(qabs((q_t)got[t] - want) <= tol))
            {
                vf_viol(fire ? "pid_fuzzy/lone-set-with-degree-above-working-epsilon-does-not-fire/" W : "pid_fuzzy/lone-set-with-degree-below-working-epsilon-fires/" W,
                        "operator %u, e = degree = %La, working epsilon %La: pid.k%c = %La, base %La, consequent %La", opr, LD(m), LD((a_real)A_REAL_EPSILON), "pid"[t], LD(got[t]), LD(f.base[t]), LD(f.mk[t][0]));
                break;
            }
        }
    }
    vf_distinct(vf_hash64(0x7E5, opr));
    fz_free(&f);
}

/* ------------------------------------------------------------------ single-neuron PID: one-step oracle, zero vs fresh twin */
static a_pid_neuro *neuro_new(a_real k, a_real const *eta, a_real const *w, lim_t const *l)
{
    a_pid_neuro *c = (a_pid_neuro *)blk(sizeof(a_pid_neuro));
    a_pid_neuro_set_kpid(c, k, eta[0], eta[1], eta[2]);
    a_pid_neuro_set_wpid(c, w[0], w[1], w[2]);
    lim_set(&c->pid, l);
    a_pid_neuro_init(c);
    VF_COUNT("w-init-on-garbage");
    judge_zeroed(2, &c->pid, "a_pid_neuro_init on a garbage-filled struct");
    if (!(c->ec == 0 && c->wp == w[0] && c->wi == w[1] && c->wd == w[2] && c->k == k && c->pid.kp == eta[0] && c->pid.ki == eta[1] && c->pid.kd == eta[2]))
    {
        vf_viol("pid_neuro_zero/ec-not-cleared-or-configuration-changed/" W, "after a_pid_neuro_init: ec=%La wp=%La wi=%La wd=%La k=%La", LD(c->ec), LD(c->wp), LD(c->wi), LD(c->wd), LD(c->k));
    }
    return c;
}
static void case_neuro(vf_rng *r, int exact)
{
    unsigned const L = 1 + (unsigned)vf_below(r, 96), psw = vf_chance(r, 1, 3) ? 0 : (unsigned)vf_range(r, 2, 30);
    double const R = exact ? (double)vf_range(r, 1, 100) : vf_logu(r, -2, 3);
    int const cls = (int)vf_below(r, 3), zero_w = vf_chance(r, 1, 8);
    int mode = vf_chance(r, 1, 4) ? M_RUN : M_INC;
    a_real K, eta[3], w[3], set = 0, fdb = 0;
    lim_t lim;
    a_pid_neuro *c, *twin = NULL;
    K = exact ? (a_real)vf_sign(r) * g16(r, 1, 64) : full(r, vf_logu(r, -2, 2));
    for (int i = 0; i < 3; ++i)
    {
        eta[i] = vf_chance(r, 1, 6) ? 0 : exact ? g16(r, vf_chance(r, 1, 4) ? -16 : 0, 16) / 16 : full(r, vf_logu(r, -6, 0));
        w[i] = zero_w || vf_chance(r, 1, 4) ? 0 : exact ? g16(r, -32, 32) : full(r, vf_logu(r, -2, 2));
    }
    if (!zero_w && w[0] == 0 && w[1] == 0 && w[2] == 0) { w[(int)vf_below(r, 3)] = 1; }
    gen_limits(r, exact, R * (double)A_ABS(K) + 1, &lim);
    /* no "unlimited" output: with all weights 0 the documented quotient is 0/0 and the output parks at outmin; with outmin = -MAX the next
       weight update eta*e*u*x overflows, which the quantifier excludes (same restriction as h_pid.c) */
    {
        a_real const cap = exact ? (a_real)0x1p13 : (a_real)1e4; /* monotone clip of both ends: outmin <= outmax is kept */
        lim.outmax = lim.outmax > cap ? cap : lim.outmax < -cap ? -cap : lim.outmax;
        lim.outmin = lim.outmin > cap ? cap : lim.outmin < -cap ? -cap : lim.outmin;
    }
    vf_log("a_pid_neuro[" W "] %s inputs: K=%La eta=(%La,%La,%La) w=(%La,%La,%La) outmax=%La outmin=%La, %u steps", exact ? "integer" : "full-mantissa", LD(K), LD(eta[0]), LD(eta[1]), LD(eta[2]), LD(w[0]), LD(w[1]),
           LD(w[2]), LD(lim.outmax), LD(lim.outmin), L);
    c = neuro_new(K, eta, w, &lim);
    for (unsigned k = 0; k < L && !vf.case_viol; ++k)
    {
        a_pid_neuro b;
        a_real ret, e, ecn, xd;
        char b1[640], b2[640];
        if (k && vf_below(r, 40) == 0)
        {
            a_real cur[3] = {c->wp, c->wi, c->wd};
            vf_log("k=%u a_pid_neuro_zero + fresh twin holding the current weights", k);
            a_pid_neuro_zero(c);
            judge_zeroed(2, &c->pid, "a_pid_neuro_zero");
            VF_COUNT("w-neuro-zero-keeps-weights-clears-ec");
            if (!(c->ec == 0 && c->wp == cur[0] && c->wi == cur[1] && c->wd == cur[2] && c->k == K)) { vf_viol("pid_neuro_zero/ec-not-cleared-or-configuration-changed/" W, "after a_pid_neuro_zero: ec=%La", LD(c->ec)); }
            free(twin);
            twin = neuro_new(K, eta, cur, &lim);
            VF_COUNT("w-zero-mid-history");
        }
        mode = next_mode(r, mode, psw, 5);
        gen_input(r, cls, exact, R, k, L, &set, &fdb);
        b = *c;
        e = set - fdb; ecn = e - b.pid.err; xd = ecn - b.ec;
        vf_log("k=%u a_pid_neuro_%s(set=%La, fdb=%La)", k, MODE[mode], LD(set), LD(fdb));
        ret = mode == M_RUN ? a_pid_neuro_run(c, set, fdb) : a_pid_neuro_inc(c, set, fdb);
        if (!judge_common(2, mode, k, &b.pid, &c->pid, ret, mode == M_RUN ? b.pid.fdb - fdb : xd, set, fdb) || !(isfinite(c->wp) && isfinite(c->wi) && isfinite(c->wd) && isfinite(c->ec)))
        {
            if (!vf.case_viol) { vf_viol("pid_neuro/state-not-finite/" W, "step %u: wp=%La wi=%La wd=%La ec=%La", k, LD(c->wp), LD(c->wi), LD(c->wd), LD(c->ec)); }
            break;
        }
        VF_COUNT("w-neuro-configuration-untouched-ec-bitwise");
        if (!(b.pid.kp == c->pid.kp && b.pid.ki == c->pid.ki && b.pid.kd == c->pid.kd && b.k == c->k && c->ec == ecn))
        {
            vf_viol("pid_neuro/configuration-changed-or-ec-ne-error-change/" W, "step %u (set=%La fdb=%La): ec=%La expected %La, k %La -> %La; pid before %s after %s", k, LD(set), LD(fdb), LD(c->ec), LD(ecn), LD(b.k), LD(c->k),
                    fmt_pid(b1, &b.pid), fmt_pid(b2, &c->pid));
        }
        if (mode == M_RUN)
        {
            VF_COUNT("w-neuro-run-passes-setpoint-keeps-weights");
            if (!((q_t)c->pid.out == qsat(set, lim.outmin, lim.outmax)) || !(b.wp == c->wp && b.wi == c->wi && b.wd == c->wd))
            {
                vf_viol("pid_neuro_run/out-ne-sat-setpoint-or-weights-changed/" W, "step %u a_pid_neuro_run(set=%La): out=%La, weights (%La,%La,%La) -> (%La,%La,%La)", k, LD(set), LD(c->pid.out), LD(b.wp), LD(b.wi), LD(b.wd),
                        LD(c->wp), LD(c->wi), LD(c->wd));
            }
        }
        else
        {
            a_real const w0[3] = {b.wp, b.wi, b.wd}, w1[3] = {c->wp, c->wi, c->wd}, lr[3] = {b.pid.kp, b.pid.ki, b.pid.kd}, xprev[3] = {b.ec, b.pid.err, b.pid.var}, xnow[3] = {ecn, e, xd};
            q_t const gq = (q_t)e * b.pid.out;
            q_t num = 0, nmag = 0, den = 0;
            for (int i = 0; i < 3; ++i)
            {
                q_t const dw = (q_t)lr[i] * gq * xprev[i], wq = (q_t)w0[i] + dw, tol = TOLK * EPS * (qabs(w0[i]) + qabs(dw)) + TINY, err = qabs((q_t)w1[i] - wq);
                VF_COUNT("w-neuro-weight-update-onestep");
                VF_MAX("w-neuro-weight-error/tolerance", (double)(err / tol));
                if (!(err <= tol))
                {
                    char kb[160];
                    vf_viol(key(kb, "pid_neuro_inc/w%c-ne-documented-update", "pid"[i]), "step %u a_pid_neuro_inc(set=%La, fdb=%La): w=%La, documented w + eta*e(k)*u(k-1)*x(k-1) = %La + %La*%La*%La*%La = %.24Lg (error %.3Lg x tolerance)", k,
                            LD(set), LD(fdb), LD(w1[i]), LD(w0[i]), LD(lr[i]), LD(e), LD(b.pid.out), LD(xprev[i]), LD(wq), LD(err / tol));
                }
                num += (q_t)w1[i] * xnow[i];
                nmag += qabs((q_t)w1[i] * xnow[i]);
                den += qabs(w1[i]);
            }
            if (den == 0) { VF_COUNT("w-neuro-all-weights-zero-output-judged-for-range-only"); }
            else
            {
                q_t const delta = (q_t)c->k * num / den, doc = qsat((q_t)b.pid.out + delta, lim.outmin, lim.outmax);
                q_t const tol = TOLK * EPS * (qabs(b.pid.out) + qabs(c->k) * nmag / den) + TINY * (1 + qabs(c->k) / den), err = qabs((q_t)c->pid.out - doc);
                VF_COUNT("w-neuro-output-onestep");
                VF_MAX("w-neuro-out-error/tolerance", (double)(err / tol));
                if (!(err <= tol))
                {
                    vf_viol("pid_neuro_inc/out-ne-documented-equation/" W, "step %u a_pid_neuro_inc(set=%La, fdb=%La): out=%La, reference sat(u(k-1) + K*sum(w x)/sum|w|) = sat(%La + %.24Lg) = %.24Lg (error %.3Lg x tolerance); weights (%La,%La,%La) x (%La,%La,%La)",
                            k, LD(set), LD(fdb), LD(c->pid.out), LD(b.pid.out), LD(delta), LD(doc), LD(err / tol), LD(w1[0]), LD(w1[1]), LD(w1[2]), LD(xnow[0]), LD(xnow[1]), LD(xnow[2]));
                }
            }
        }
        if (twin)
        {
            a_real rt = mode == M_RUN ? a_pid_neuro_run(twin, set, fdb) : a_pid_neuro_inc(twin, set, fdb);
            VF_COUNT("w-neuro-zero-twin-bitwise");
            if (isfinite(twin->wp + twin->wi + twin->wd) &&
                !(rt == ret && twin->pid.out == c->pid.out && twin->pid.var == c->pid.var && twin->pid.fdb == c->pid.fdb && twin->pid.err == c->pid.err && twin->pid.sum == c->pid.sum && twin->ec == c->ec && twin->wp == c->wp &&
                  twin->wi == c->wi && twin->wd == c->wd))
            {
                vf_viol("pid_neuro_zero/zeroed-controller-differs-from-fresh-one/" W, "step %u: zeroed out=%La w=(%La,%La,%La), fresh twin out=%La w=(%La,%La,%La)", k, LD(c->pid.out), LD(c->wp), LD(c->wi), LD(c->wd), LD(twin->pid.out),
                        LD(twin->wp), LD(twin->wi), LD(twin->wd));
            }
        }
        cell(2, mode, 7, 0, &c->pid);
    }
    free(twin);
    free(c);
}

/* ------------------------------------------------------------------ plan: per 10 cases 2 plain exact, 1 pos/inc pair, 2 plain one-step, 2 fuzzy look-up, 1 fuzzy quarter grid (+ threshold), 2 neuron */
static uint64_t vf_ncases(int tier) { return tier ? 300000 : 12000; }
static void vf_case(uint64_t c, vf_rng *r)
{
    unsigned const slot = (unsigned)(c % 10);
    uint64_t const b = c / 10;
    if (slot < 2) { case_pid(r, 1); }
    else if (slot == 2) { case_pair(r); }
    else if (slot < 5) { case_pid(r, 0); }
    else if (slot < 7) { case_fuzzy(r, 2 * b + (slot - 5), 1); }
    else if (slot == 7) { case_fuzzy(r, b, 4); case_threshold(r, b); }
    else { case_neuro(r, slot == 8); }
}
