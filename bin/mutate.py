#!/usr/bin/env python3
"""Automated mutation sweep: how many single-edit changes to the anchored sources, which still compile and pass the 41
repository tests, do the quick checks report?

  bin/mutate.py [--files src/avl.c,...] [--max N] [--seed S] [--jobs J] [--out DIR]

For every selected source file a list of single-token mutants is generated (relational / arithmetic / logical operator
replacement, constant nudges, dropped statements, swapped identifiers from a small dictionary).  Each mutant is applied to
a scratch copy of /repo (never to /repo), the repository's own test suite is built and run there (incremental cmake build,
one scratch tree per job), and if - and only if - all 41 tests still pass, the quick tier of the checks that anchor the
file is run against the scratch tree (VF_REPO).  One JSON line per mutant goes to <out>/results.jsonl:
  status = build-failed | killed-by-tests | caught (keys) | survived | inconclusive
Survivors are the interesting output: each is either equivalent with respect to the properties or a blind spot.
Scratch trees live under /tmp/vf-mut-* and are removed at the end.
"""
import argparse, json, os, random, re, shutil, subprocess, sys, time, hashlib
from concurrent.futures import ThreadPoolExecutor

VERIF = os.path.dirname(os.path.dirname(os.path.abspath(__file__)))
REPO = os.environ.get('VF_REPO_ROOT', '/repo')

CHECKS = {
    'src/avl.c': ['C01', 'C03'], 'include/a/avl.h': ['C01', 'C03'],
    'src/rbt.c': ['C02', 'C03'], 'include/a/rbt.h': ['C02', 'C03'],
    'src/vec.c': ['C04', 'C07'], 'src/buf.c': ['C04', 'C07'], 'include/a/vec.h': ['C04'], 'include/a/buf.h': ['C04'],
    'src/que.c': ['C05', 'C07'], 'include/a/list.h': ['C05'], 'include/a/slist.h': ['C05'], 'include/a/que.h': ['C05'],
    'src/str.c': ['C06', 'C07', 'C18'], 'include/a/str.h': ['C06'], 'src/utf.c': ['C18', 'C06'],
    'src/a.c': ['C04', 'C05', 'C06', 'C16', 'C19'],
    'src/linalg_plu.c': ['C08'], 'src/linalg_ldl.c': ['C08'], 'src/linalg_llt.c': ['C08'], 'src/linalg.c': ['C09', 'C08'],
    'src/complex.c': ['C10'], 'include/a/complex.h': ['C10'],
    'src/math.c': ['C11', 'C19', 'C10'],
    'src/pid.c': ['C12', 'C13'], 'src/pid_fuzzy.c': ['C13', 'C12'], 'src/pid_neuro.c': ['C12'],
    'src/mf.c': ['C13'], 'src/fuzzy.c': ['C13'], 'include/a/fuzzy.h': ['C13'],
    'src/trajtrap.c': ['C14'], 'src/trajbell.c': ['C14'],
    'src/trajpoly3.c': ['C15'], 'src/trajpoly5.c': ['C15'], 'src/trajpoly7.c': ['C15'], 'src/poly.c': ['C15'], 'include/a/poly.h': ['C15'],
    'src/tf.c': ['C16'], 'include/a/lpf.h': ['C16'], 'include/a/hpf.h': ['C16'],
    'src/crc.c': ['C17'], 'src/hash.c': ['C17'],
    # struct headers: C++ members (judged by the cxx configurations), initialiser macros, enums
    'include/a/pid.h': ['C12'], 'include/a/pid_fuzzy.h': ['C13', 'C12'], 'include/a/pid_neuro.h': ['C12'], 'include/a/tf.h': ['C16'],
    'include/a/trajbell.h': ['C14'], 'include/a/trajtrap.h': ['C14'],
    'include/a/trajpoly3.h': ['C15'], 'include/a/trajpoly5.h': ['C15'], 'include/a/trajpoly7.h': ['C15'],
    'include/a/mf.h': ['C13'],
    # the Rust binding (not compiled by the repository's ctest suite, so every mutant reaches the check)
    'src/lib.rs': ['C20'],
    # the umbrella header: integer helpers (C19), A_SAT / A_ABS / A_MIN / A_MAX and the size macros used by the containers and controllers
    'include/a/a.h': ['C19', 'C12', 'C04', 'C06', 'C05'], 'include/a/math.h': ['C11', 'C19'],
}

REL = [('<=', '<'), ('>=', '>'), ('<', '<='), ('>', '>='), ('==', '!='), ('!=', '==')]
SWAPS = [('left', 'right'), ('right', 'left'), ('prev', 'next'), ('next', 'prev'), ('head', 'tail'), ('tail', 'head'),
         ('num_', 'mem_'), ('min', 'max'), ('MIN', 'MAX'), ('MAX', 'MIN'), ('sin', 'cos'), ('cos', 'sin'), ('imag', 'real'), ('real', 'imag'),
         ('outmin', 'outmax'), ('summin', 'summax'), ('kp', 'ki'), ('ki', 'kd'), ('v0', 'v1'), ('p0', 'p1'), ('a0', 'a1'), ('ta', 'td'),
         ('row', 'col'), ('lower', 'upper')]


def strip_noncode(line):
    """blank out string literals, char literals and // comments so operators inside them are not mutated"""
    out, i, n = [], 0, len(line)
    while i < n:
        c = line[i]
        if c == '"' or c == "'":
            q = c
            j = i + 1
            while j < n and line[j] != q:
                j += 2 if line[j] == '\\' else 1
            out.append(' ' * (min(j, n - 1) - i + 1))
            i = j + 1
        elif line.startswith('//', i):
            out.append(' ' * (n - i))
            break
        else:
            out.append(c)
            i += 1
    return ''.join(out)


def gen_mutants(path, text):
    lines = text.split('\n')
    muts = []
    in_comment = False
    depth = 0
    for ln, raw in enumerate(lines):
        line = raw
        # block comments
        if in_comment:
            if '*/' in line:
                in_comment = False
            continue
        if line.lstrip().startswith('/*') or line.lstrip().startswith('*'):
            if '/*' in line and '*/' not in line:
                in_comment = True
            continue
        code = strip_noncode(re.sub(r'/\*.*?\*/', lambda m: ' ' * len(m.group(0)), line))
        d0 = depth
        depth += code.count('{') - code.count('}')
        if line.lstrip().startswith('#'):
            continue
        if d0 == 0 and not (path.endswith('.h') and ('return' in code or '=' in code)):
            continue  # outside function bodies
        def add(kind, a, b, new):
            muts.append(dict(line=ln, kind=kind, frm=a, to=b, new=new))
        # relational operators
        for m in re.finditer(r'(?<![<>=!\-+*/&|])(<=|>=|==|!=|<|>)(?![<>=])', code):
            op = m.group(1)
            if op in ('<', '>') and (re.search(r'#\s*include', code) or '->' in code[max(0, m.start() - 1):m.end() + 1]):
                continue
            for a, b in REL:
                if a == op:
                    add('rel', a, b, raw[:m.start()] + b + raw[m.end():])
        # arithmetic operators (binary, with spaces around them as the code base formats them)
        for m in re.finditer(r' (\+|-|\*|/) ', code):
            op = m.group(1)
            rep = {'+': '-', '-': '+', '*': '/', '/': '*'}[op]
            add('arith', op, rep, raw[:m.start(1)] + rep + raw[m.end(1):])
        for m in re.finditer(r'(\+=|-=|\*=|/=)', code):
            op = m.group(1)
            rep = {'+=': '-=', '-=': '+=', '*=': '/=', '/=': '*='}[op]
            add('arith-assign', op, rep, raw[:m.start(1)] + rep + raw[m.end(1):])
        # logical
        for m in re.finditer(r'(&&|\|\|)', code):
            op = m.group(1)
            rep = '||' if op == '&&' else '&&'
            add('logic', op, rep, raw[:m.start(1)] + rep + raw[m.end(1):])
        # integer constants 0/1/2 and others +-1
        for m in re.finditer(r'(?<![\w.])(\d+)(?![\w.])', code):
            v = int(m.group(1))
            for nv in ([1] if v == 0 else [v - 1, v + 1]):
                add('const', str(v), str(nv), raw[:m.start(1)] + str(nv) + raw[m.end(1):])
        # increments
        for m in re.finditer(r'(\+\+|--)', code):
            op = m.group(1)
            rep = '--' if op == '++' else '++'
            add('incdec', op, rep, raw[:m.start(1)] + rep + raw[m.end(1):])
        # identifier swaps
        for a, b in SWAPS:
            if path.endswith('.rs') and a in ('real', 'imag'):
                continue  # `real` is the binding's scalar type name
            for m in re.finditer(r'(?<![A-Za-z0-9])' + re.escape(a) + r'(?![A-Za-z0-9])', code):
                add('ident', a, b, raw[:m.start()] + b + raw[m.end():])
        # dropped statement: a simple call or assignment line
        st = code.strip()
        if st.endswith(';') and not re.match(r'^(return|break|continue|goto|else|case|default|typedef|static|const|unsigned|int|a_\w+ \**\w+( =|;)|[A-Za-z_]\w* \**\w+;)', st) \
                and '{' not in st and '}' not in st and (re.match(r'^[\w\->.\[\]() *&+]+\s*(=|\+=|-=|\*=|/=|\|=|&=)[^=]', st) or re.match(r'^[\w]+\(.*\);$', st) or st.endswith('++;') or st.endswith('--;')):
            add('drop', st[:40], '', re.match(r'^\s*', raw).group(0) + ('(); /* dropped */' if path.endswith('.rs') else '(void)0; /* dropped */'))
    # de-duplicate
    seen, out = set(), []
    for m in muts:
        k = (m['line'], m['new'])
        if k not in seen and m['new'] != lines[m['line']]:
            seen.add(k)
            out.append(m)
    return out


def sh(cmd, cwd=None, env=None, timeout=3600):
    try:
        return subprocess.run(cmd, cwd=cwd, env=env, stdout=subprocess.PIPE, stderr=subprocess.STDOUT, text=True, timeout=timeout)
    except subprocess.TimeoutExpired as e:
        class R:
            returncode = 124
            stdout = 'timeout'
        return R()


class Slot:
    def __init__(self, idx):
        self.dir = '/tmp/vf-mut-%d-%d' % (os.getpid(), idx)
        shutil.rmtree(self.dir, ignore_errors=True)
        os.makedirs(self.dir)
        # a full copy of the working tree (tracked files only), so cmake can build the tests
        files = subprocess.run(['git', '-C', REPO, 'ls-files'], stdout=subprocess.PIPE, text=True).stdout.split('\n')
        for f in files:
            if not f:
                continue
            src = os.path.join(REPO, f)
            if not os.path.isfile(src):
                continue
            dst = os.path.join(self.dir, f)
            os.makedirs(os.path.dirname(dst), exist_ok=True)
            shutil.copy2(src, dst)
        r = sh(['cmake', '-S', '.', '-B', '_build', '-G', 'Ninja', '-DCMAKE_BUILD_TYPE=RelWithDebInfo', '-DBUILD_TESTING=ON', '-DLIBA_CXX=ON',
                '-DCMAKE_C_FLAGS=-Wno-error', '-DCMAKE_CXX_FLAGS=-Wno-error'], cwd=self.dir)
        r = sh(['cmake', '--build', '_build', '-j4'], cwd=self.dir)
        if r.returncode:
            raise SystemExit('baseline build failed in scratch: ' + r.stdout[-2000:])

    def close(self):
        shutil.rmtree(self.dir, ignore_errors=True)


def run_one(slot, path, text, m, tag):
    lines = text.split('\n')
    lines[m['line']] = m['new']
    target = os.path.join(slot.dir, path)
    res = dict(file=path, line=m['line'] + 1, kind=m['kind'], frm=m['frm'], to=m['to'], old=text.split('\n')[m['line']].strip()[:160], new=m['new'].strip()[:160])
    t0 = time.time()
    try:
        with open(target, 'w') as f:
            f.write('\n'.join(lines))
        r = sh(['cmake', '--build', '_build', '-j4'], cwd=slot.dir, timeout=900)
        if r.returncode:
            res['status'] = 'build-failed'
            return res
        r = sh(['ctest', '--test-dir', '_build', '-j4', '--timeout', '60'], cwd=slot.dir, timeout=1200)
        if '100% tests passed, 0 tests failed out of 41' not in r.stdout:
            res['status'] = 'killed-by-tests'
            return res
        keys, rcs = [], {}
        env = dict(os.environ, VF_REPO=slot.dir, VF_TAG=tag, VF_EVIDENCE_DIR=os.path.join(slot.dir, '_ev'), VF_NO_COV='1', VF_NO_MEMCHECK='1')
        for chk in CHECKS[path]:
            r = sh([os.path.join(VERIF, 'bin', 'check'), chk, 'quick'], cwd=VERIF, env=env, timeout=1800)
            rcs[chk] = r.returncode
            if 'harness build failed' in r.stdout or 'library build failed' in r.stdout:
                res['status'] = 'build-failed'  # the change does not compile for a user of that header / in that configuration
                res['detail'] = chk
                return res
            keys += [chk + ':' + k for k in re.findall(r'VIOLATION property=\S+ replay=\S+ key=(\S+)', r.stdout)][:6]
            if r.returncode == 1:
                break  # caught; no need to run the other checks
        res['rc'] = rcs
        if any(v == 1 for v in rcs.values()):
            res['status'] = 'caught'
            res['keys'] = keys[:8]
        elif any(v not in (0, 1) for v in rcs.values()):
            res['status'] = 'inconclusive'
        else:
            res['status'] = 'survived'
        return res
    finally:
        with open(target, 'w') as f:
            f.write(text)
        res['wall'] = round(time.time() - t0, 1)
        for chk in CHECKS[path]:
            shutil.rmtree(os.path.join(VERIF, 'replays', chk + tag), ignore_errors=True)


def main():
    ap = argparse.ArgumentParser()
    ap.add_argument('--files', default='')
    ap.add_argument('--max', type=int, default=40, help='mutants per file (random sample)')
    ap.add_argument('--seed', type=int, default=1)
    ap.add_argument('--jobs', type=int, default=3)
    ap.add_argument('--out', default=os.path.join(VERIF, 'build', 'mutation'))
    a = ap.parse_args()
    files = [f for f in a.files.split(',') if f] or sorted(CHECKS)
    os.makedirs(a.out, exist_ok=True)
    rng = random.Random(a.seed)
    work = []
    for path in files:
        text = open(os.path.join(REPO, path)).read()
        muts = gen_mutants(path, text)
        rng.shuffle(muts)
        for m in muts[:a.max]:
            work.append((path, text, m))
    print('%d mutants over %d files' % (len(work), len(files)), flush=True)
    slots = [Slot(i) for i in range(a.jobs)]
    free = list(slots)
    import threading
    lock = threading.Lock()
    outf = open(os.path.join(a.out, 'results.jsonl'), 'a')
    stats = {}

    def task(item):
        path, text, m = item
        with lock:
            slot = free.pop()
        try:
            tag = 'mut%d' % slots.index(slot)
            res = run_one(slot, path, text, m, tag)
        finally:
            with lock:
                free.append(slot)
        with lock:
            stats[res['status']] = stats.get(res['status'], 0) + 1
            outf.write(json.dumps(res) + '\n')
            outf.flush()
            print('%-16s %s:%d %s %s -> %s %s' % (res['status'], res['file'], res['line'], res['kind'], res['frm'], res['to'], ','.join(res.get('keys', [])[:2])), flush=True)
        return res

    try:
        with ThreadPoolExecutor(max_workers=a.jobs) as ex:
            list(ex.map(task, work))
    finally:
        for s in slots:
            s.close()
        import glob
        for d in glob.glob(os.path.join(VERIF, 'build', '*-quickmut[0-9]*')):
            shutil.rmtree(d, ignore_errors=True)
    print('SUMMARY', json.dumps(stats), flush=True)


if __name__ == '__main__':
    main()
