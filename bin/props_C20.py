_COMMON = [
    'only executions produced by this run are judged (runtime monitoring, not proof)',
    'gcc/g++ 12 and rustc as installed, x86-64 SysV ABI; library rebuilt from /repo working tree with -fsanitize=address,undefined',
    'foreign targets are judged at compile time only: clang 14 as a cross front end stands in for the target\'s own C compiler (cl.exe, mingw/arm/riscv gcc) and the Rust side '
    'is the Rust reference\'s target-independent definition of usize/uN/c_int/repr(C) rendered in C, not a foreign rustc; calling-convention details beyond class and size of each parameter are not examined',
]
SPEC = dict(
    custom='c20',
    level='other',
    rule='every #[repr(C)] struct and every extern "C" function/static found in /repo/src/lib.rs is compared with what the C/C++ compiler sees for the '
         'current headers: (struct) sizeof/alignof, field count, and per field offset, size, class {int:N, float:N, bool, ptr(+pointee size), arr:N*class, '
         'agg:N} and name position - C field names and order come from the compiler\'s DWARF via gdb, C values from an executed C++17 probe, Rust '
         'values from an executed probe (size_of/align_of/offset_of!/trait-based class) built from a verbatim copy of lib.rs; (function) symbol defined '
         'in the library, arity, class of every parameter and of the result; (static) every `static` item of the extern blocks: size, class, alignment and signedness of the declared Rust type against sizeof/alignof/signedness of the C object as the headers declare it (executed C++ probe), against the symbol size in the library archive (nm -S), and the object\'s bytes read through the binding\'s declaration against the bytes read in C (keys abi/static/<name>/type|align|object-size|signedness|value); a static not measured on every side, or an extern item the parser cannot classify, makes the run inconclusive (evidence: statics_measured_three_ways, unmeasured_statics, unparsed_extern_items); (transfer) position-coded bytes written through the Rust mirror are read '
         'through the C definition and vice versa for every mirrored struct; (call-through) crc8/16/32/64 known answers, pid pos/inc, tf, trajtrap, '
         'trajbell, trajpoly3/5/7, regress_simple, version driven through the binding\'s public API and compared bit for bit with the same computation in C, '
         '(wrapper equivalence, twin execution) every pub fn of every impl block, every free pub fn (incl. mod mf), every trait-impl fn (Default, PartialOrd, PartialEq) '
         'and every pub const (mf::*, fuzzy::*) of lib.rs is enumerated from the source; for each, random histories of 10-40 calls per object (300 per struct and width in '
         'quick, 4000 in thorough; PRNG seeded from VERIF_SEED) apply every call twice - through the safe wrapper, and, after restoring the object and all caller arrays, '
         'through the extern "C" function called directly with the arguments the documentation implies (inline functions of hpf/lpf, init macros, A_VERSION_n, '
         'A_PID_FUZZY_BFUZZ and the enum values through C shims compiled against the real headers) - and compare result, object fields (padding excluded) and caller arrays '
         '(with 40 sentinel elements behind every slice) bit for bit, all NaNs equal; constructors are compared with the C initialisation sequence run on a 0x5C-filled slot; '
         'crc8/16/32/64 eval is additionally compared with a bitwise MSB-/LSB-first reference written in Rust, and after every new_*/gen_* a probe eval tells whether the object '
         'evaluates with the function of the right bit order; violation keys api/<struct>::<fn>/result-differs-from-<c function> and .../state-differs-from-<c function>; '
         'a public item of lib.rs that the module does not cover or did not exercise makes the run inconclusive (evidence: uncovered_wrappers, unexercised_wrappers, wrapper_twin_calls); '
         'all under ASan/UBSan; (cross-target, COMPILE-TIME only) for 17 foreign targets plus this host\'s own triple as reference (LLP64 Windows msvc/gnu, ILP32 x86/ARM/RISC-V/wasm32/x32, big-endian ppc64/s390x, m68k, 16-bit msp430, ...) and both feature sets, '
         'clang -fsyntax-only --target=<triple> compiles every public header with the flags of build.rs together with a generated C rendering of every mirror '
         '(usize -> __UINTPTR_TYPE__, uN/iN -> exact-width, c_int -> int, real -> double/float, repr(C) -> `struct rs_<name>` laid out by clang for that target) and of every foreign '
         'declaration; static assertions compare sizeof/_Alignof/offsetof/member size (C unit) and class+size(+pointee size) of every field, parameter, result and static (C++ unit, '
         'templates over decltype(&a_fn)); a failed assertion is a violation abi/cross-target/<target>/<item>/<what>, nothing is executed for these targets '
         '(evidence: cross_target_layouts). Both tiers run both real widths (f64 default and the f32 feature). distinct_nontrivial = distinct declarations (struct, function, static) '
         'and call-through scenarios compared on both sides.',
    exhaustive={},
    assumptions=_COMMON + [
        'differences no execution on x86-64 can observe are not reported: signedness of parameters, results and fields (the signedness of a foreign static IS compared), pointer constness, same-width integer aliases, a pointee of size <= 1 '
        '(void/char/u8) on either side',
        'a pure field rename is not an ABI change (positions of equal names are compared; version.alpha <-> a_version.alpha_ is normalised)',
        'crc8/16/32/64 wrappers have no C struct; they are checked through their functions\' parameter types and the known-answer calls',
        'the cmake path of build.rs is not exercised',
        'wrapper equivalence, constructor reference: limits +-inf, state as a_*_init leaves it, every gain/weight 0, opr = a_pid_fuzzy_opr(EQU), trajbell/trajtrap all-zero '
        '(the binding\'s own convention; the Java/Lua/Python/JS bindings of the same repository start with kp = k = 1 and wp = wi = wd = 0.1)',
        'wrapper equivalence, preconditions of the histories (calls outside them were tried once by hand and are NOT silent, see level_note): every text handed to '
        'version::parse / version::set_alpha carries its NUL terminator inside the slice; pid_fuzzy::bfuzz() is called only after set_bfuzz(); regress_linear has at least one '
        'coefficient; x holds n*coef_n, y/err/pdm n elements; mgd batch >= 1; fuzzy rule bases are the valid triangular partitions of harness/h_cxxw.c',
        'getters that have no C function (tf::input/num/output/den, regress_linear::coef) are compared with the C struct fields they expose'],
    level_text='Executed reflection on both sides of the FFI for EVERY mirrored struct and foreign item (complete enumeration of the finite set of declarations), '
               'plus executed cross-boundary byte transfers and call-throughs under ASan. The property is about declarations, so "all declarations, both real '
               'widths" is the whole quantifier; what remains out of reach are ABI-indistinguishable differences (listed under assumptions).',
    level_note='seen by hand on the unchanged tree, outside the preconditions above (not judged by the check): version::parse(&str) and version::set_alpha(&[u8]) pass no length, '
               'a_version_parse/a_version_set_alpha read past a heap slice that has no terminator (ASan heap-buffer-overflow, version.c:138 / :97); pid_fuzzy::new().bfuzz() builds a slice '
               'from a null pointer (from_raw_parts_mut precondition abort); regress_linear over an empty coefficient slice divides by zero in pdm/bgd. '
               'Foreign data models (LLP64, ILP32, big-endian, 16-bit) are reached by static assertions that clang evaluates for the named target while compiling the current headers - a measurement by the compiler, '
               'not an execution: a target clang has no back end for, or for which the headers do not compile with stub <math.h>/<string.h>, is skipped and listed (cross_target_layouts.skipped_targets). '
               'trusted: clang\'s record layout and predefines for foreign targets, gdb/DWARF for C field order, g++ type traits, rustc size_of/offset_of!, the small lib.rs parser in bin/c20.py (run fails as inconclusive if it finds implausibly few items)',
    technique='executed layout/signature probes on both sides of the FFI + cross-boundary transfer, call-through and wrapper-vs-C twin execution over random call histories under ASan; layout probe re-executed under simulated target predefines; compile-time layout/declaration assertions evaluated by clang -fsyntax-only for 17 foreign target triples',
)
