_COMMON = [
    'only executions produced by this run are judged (runtime monitoring, not proof)',
    'gcc/g++ 12 and rustc as installed, x86-64 SysV ABI; library rebuilt from /repo working tree with -fsanitize=address,undefined',
]
SPEC = dict(
    custom='c20',
    level='other',
    rule='every #[repr(C)] struct and every extern "C" function/static found in /repo/src/lib.rs is compared with what the C/C++ compiler sees for the '
         'current headers: (struct) sizeof/alignof, field count, and per field offset, size, class {int:N, float:N, bool, ptr(+pointee size), arr:N*class, '
         'agg:N} and name position - C field names and order come from the compiler\'s DWARF via gdb, C values from an executed C++17 probe, Rust '
         'values from an executed probe (size_of/align_of/offset_of!/trait-based class) built from a verbatim copy of lib.rs; (function) symbol defined '
         'in the library, arity, class of every parameter and of the result; (transfer) position-coded bytes written through the Rust mirror are read '
         'through the C definition and vice versa for every mirrored struct; (call-through) crc8/16/32/64 known answers, pid pos/inc, tf, trajtrap, '
         'trajbell, trajpoly3/5/7, regress_simple, version driven through the binding\'s public API and compared bit for bit with the same computation in C, '
         'all under ASan/UBSan. Both tiers run both real widths (f64 default and the f32 feature). distinct_nontrivial = distinct declarations (struct, function, static) '
         'and call-through scenarios compared on both sides.',
    exhaustive={},
    assumptions=_COMMON + [
        'differences no execution on x86-64 can observe are not reported: signedness, pointer constness, same-width integer aliases, a pointee of size <= 1 '
        '(void/char/u8) on either side',
        'a pure field rename is not an ABI change (positions of equal names are compared; version.alpha <-> a_version.alpha_ is normalised)',
        'crc8/16/32/64 wrappers have no C struct; they are checked through their functions\' parameter types and the known-answer calls',
        'the cmake path of build.rs is not exercised'],
    level_text='Executed reflection on both sides of the FFI for EVERY mirrored struct and foreign item (complete enumeration of the finite set of declarations), '
               'plus executed cross-boundary byte transfers and call-throughs under ASan. The property is about declarations, so "all declarations, both real '
               'widths" is the whole quantifier; what remains out of reach are ABI-indistinguishable differences (listed under assumptions).',
    level_note='trusted: gdb/DWARF for C field order, g++ type traits, rustc size_of/offset_of!, the small lib.rs parser in bin/c20.py (run fails as inconclusive if it finds implausibly few items)',
    technique='executed layout/signature probes on both sides of the FFI + cross-boundary transfer and call-through under ASan',
)
