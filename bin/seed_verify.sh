#!/bin/sh
# usage: bin/seed_verify.sh <seed worktree> <A|B>
# Confirms a seeded fault independently in a scratch worktree of /repo: the patch applies, the library and the 41
# repository tests still build and pass with it, the demonstration FAILS with it and PASSES without it.
W=/tmp/vf-seedverify
S=$1; V=$2
[ -d $W ] || git -C /repo worktree add -q --detach $W HEAD || exit 2
cd $W || exit 2
git checkout -q --detach "$(git -C /repo rev-parse HEAD)" 2>/dev/null
git checkout -q -- . ; rm -rf out demo demo_* ; mkdir -p out/$V ; cp -r $S/out/$V/. out/$V/
git apply --check out/$V/patch.diff || { echo "RESULT patch-does-not-apply"; exit 1; }
echo "--- without the change:"; sh out/$V/run.sh > out/$V/pass.log 2>&1; rc0=$?; tail -3 out/$V/pass.log
git apply out/$V/patch.diff
cmake -S . -B _build -G Ninja -DCMAKE_BUILD_TYPE=RelWithDebInfo -DBUILD_TESTING=ON -DLIBA_CXX=ON -DCMAKE_C_FLAGS=-Wno-error -DCMAKE_CXX_FLAGS=-Wno-error >/dev/null 2>&1
cmake --build _build -j16 >/dev/null 2>&1 || { echo "RESULT build-fails-with-change"; git checkout -q -- .; exit 1; }
T=$(ctest --test-dir _build -j8 --timeout 900 2>&1 | grep "tests passed")
echo "--- tests with the change: $T"
echo "--- with the change:"; sh out/$V/run.sh > out/$V/fail.log 2>&1; rc1=$?; tail -4 out/$V/fail.log
git checkout -q -- . ; rm -rf _build demo demo_*
case "$T" in "100% tests passed, 0 tests failed out of 41") t=ok;; *) t=bad;; esac
echo "RESULT tests=$t demo_without_rc=$rc0 demo_with_rc=$rc1"
[ "$t" = ok ] && [ $rc0 -eq 0 ] && [ $rc1 -ne 0 ]
