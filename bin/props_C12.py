"""C12 - PID controllers stay within limits and follow their equations for every history (harness/h_pid.c)."""

SPEC = dict(
    harness=['h_pid.c'],
    level='exploration',
    rule='every case is one history of 1..2000 (set-point, feedback) pairs fed to the real controller code with random switches between '
         'the run/pos/inc entry points, a_*_zero calls in mid-history (after which a freshly initialised twin controller is run alongside '
         'and must agree bitwise) and occasional re-tuning / limit changes through the public fields; inputs are iid, random walk, long '
         'saturation followed by a sign reversal of the error, a closed loop around an integer/real first-order plant, or piecewise constant; '
         'limit scenarios: wide, output tight, integrator tight, both, and the edges summax=0 / summin=0 / both 0 / outmin=outmax / an output '
         'interval not containing 0. Case mix per 20 cases: 6 plain exact, 2 plain pos-vs-inc pairs (exact), 3 plain real, 4 fuzzy exact, '
         '2 fuzzy real, 3 neuron; the fuzzy cases enumerate operator (7) x rule-base order (1..7) cyclically, with random consequent tables '
         '(each of the three optionally NULL), membership tables built from mf.h (exact regime: tri/trap/lins/linz with integer break points '
         'and power-of-two flank widths; real regime: all 13 families) and the scratch buffer an exact-size malloc block of '
         'A_PID_FUZZY_BFUZZ(n), n = the largest number of overlapping membership supports. EXACT regime (integer inputs/limits, gains k/16): '
         'after every step sum/out/var/fdb/err (fuzzy: also the three scheduled gains) are compared with == against a __float128 reference '
         'written from the header equations (plain PID: an independent running reference over the whole history, plus the closed form and '
         'pos==inc while no limit has been active); fuzzy steps whose normaliser is not a power of two, and the neuron (division), are judged '
         'by a one-step __float128 evaluation of the documented equation on the controller\'s own previous state within 16*eps*sum|terms| '
         '(a-priori rounding bound <= 3.5 eps). REAL regime (|values| <= 1e6): output within [outmin,outmax], all state finite, integrator '
         'never moves further beyond a clamp it has reached, overshoots by at most one increment |ki*err|, moves by exactly ki*err when it '
         'moves, untouched by run/inc; limits/gains/configuration untouched; err/fdb/var (single roundings) bitwise. '
         'distinct_nontrivial counts distinct (controller, entry point run/pos/inc, fuzzy operator, rule-base order, set of limits active after '
         'the step: out=outmax, out=outmin, sum>=summax, sum<=summin) combinations in which at least one step was judged - NOT the number of '
         'steps (evaluations).',
    exhaustive={'quick': None, 'thorough': None},
    require=['neuro-all-weights-zero-histories', 'out-within-limits', 'state-finite', 'return-eq-out-field', 'limits-untouched', 'gains-untouched', 'cached-fields-bitwise',
             'sum-untouched-by-run-inc', 'integrator-not-further-beyond-clamp', 'integrator-overshoot-le-one-increment',
             'integrator-step-eq-one-increment', 'equation-exact-sum', 'equation-exact-out', 'equation-onestep-sum', 'equation-onestep-out',
             'pos-eq-inc-while-no-limit-active', 'closed-form-while-no-limit-active', 'seen-first-limit-activation-in-pos-inc-pair',
             'init-zero-state', 'zero-state-fields', 'zero-mid-history', 'zero-twin-bitwise', 'retune-mid-history',
             'fuzzy-scratch-exact-size-block', 'fuzzy-bfuzz-getter', 'fuzzy-configuration-untouched', 'fuzzy-gains-exact', 'fuzzy-gains-within-tolerance',
             'seen-fuzzy-no-set-fires', 'neuro-configuration-untouched', 'neuro-ec-bitwise', 'neuro-run-passes-setpoint',
             'neuro-run-keeps-weights', 'neuro-weight-update-onestep', 'neuro-output-onestep', 'neuro-zero-keeps-weights-clears-ec',
             'neuro-twin-weights-bitwise', 'seen-output-at-outmax', 'seen-output-at-outmin', 'seen-integrator-at-or-beyond-summax',
             'seen-integrator-at-or-beyond-summin', 'seen-integration-suspended', 'seen-integrator-pulled-back-from-clamp'],
    cov_files=['pid.c', 'pid_fuzzy.c', 'pid_neuro.c'],
    cov_cases=400, cov_funcs=r'^a_pid_',
    workers={'quick': 8, 'thorough': 16},
    timeout={'quick': 900, 'thorough': 7200},
    assumptions=[
        'only executions produced by this run are judged (runtime monitoring, not proof)',
        'gcc 12 / x86-64 LP64 little-endian, A_SIZE_POINTER=8; library rebuilt from /repo working tree with -fsanitize=address,undefined',
        'a_real = double (A_SIZE_REAL=8), SSE2 arithmetic, -ffp-contract=off: the exact regime relies on IEEE-754 binary64 operations being '
        'exact whenever the result is representable; == is used instead of a bit comparison so that the sign of a zero (which the equations '
        'do not determine) is not judged',
        'the "documented difference equations" are read as: pid.h positional/incremental forms with the derivative taken on the measurement '
        '(fdb(k-1)-fdb(k), the form the property anchors and the source comment name; it equals e(k)-e(k-1) while the set-point is constant) '
        'and the anti-windup rule "integration is suspended iff the integrator has reached or passed summax/summin and the error does not '
        'point back" (pid.h prints this rule with a garbled connective; strictness at the boundary is taken from the implementation, so with '
        'summax = 0 or summin = 0 the integrator never leaves 0 - reported as an observation, not judged)',
        'quantifier: ki >= 0 (fuzzy: base ki plus every ki consequent > 0 or all exactly 0), summin <= 0 <= summax, outmin <= outmax, '
        '|inputs|, |gains|, |limits| <= 1e6 (or +-DBL_MAX for "unlimited"), so no intermediate overflows',
        'fuzzy: a set counts as firing when its membership is non-zero; in the exact regime memberships are 0 or >= 1/8, so the '
        'implementation\'s activation threshold (eps) cannot matter; ec(k) = e(k) - e(k-1); rule tables are indexed [e set][ec set]; when sets '
        'fire but every joint membership is 0 the reference expects the base gains (no rule contributes; this is the behaviour of the repaired library, commit e9ff772)',
        'neuron: pid_neuro.h defines w(k) through u(k) and u(k) through w(k); the reference uses the causal reading '
        'w(k) = w(k-1) + eta*e(k)*u(k-1)*x(k-1) with x(k-1) the regressors cached by the previous step (whatever entry point that was), and '
        'u(k) = sat(u(k-1) + K*sum(w x)/sum|w|) exactly as printed; steps where all three weights are 0 (0/0) are executed but the output is '
        'judged for range only',
        'a_*_zero "behaves as freshly initialised": compared against a second controller object created from garbage-filled memory with the '
        'same gains/limits/tables (neuron: the weights the zeroed controller holds at that moment) and a_*_init',
    ],
    level_text='The property quantifies over every history; it is decided here by executing the real a_pid / a_pid_fuzzy / a_pid_neuro code on '
               'many histories and judging every step. Where the arithmetic can be made exact (integer inputs, dyadic gains, dyadic '
               'membership tables) the oracle is equality with an independently written __float128 recurrence, so a wrong sign, a swapped '
               'operand, a stale cache field or an off-by-one table index cannot hide behind a tolerance; where a division makes exactness '
               'impossible the documented equation is evaluated in __float128 on the controller\'s own previous state with an a-priori '
               'rounding bound. Range, finiteness and integrator-clamp clauses are judged on arbitrary real data as well. The fuzzy '
               'scratch buffer contract is watched by ASan on an exact-size block. Exploration: histories, gains and tables are sampled; '
               'operator x order combinations are enumerated.',
    level_note='trusted: libquadmath/gcc __float128 arithmetic and the harness reference recurrences; histories are at most 2000 steps; '
               'fuzzy gain values in the real regime are judged by C13, not here; overruns that stay inside the scratch allocation are visible '
               'only through a wrong gain; float build (A_SIZE_REAL=4) and the C++ wrappers are not executed',
    technique='exact-arithmetic reference recurrence (bitwise) + one-step binary128 oracle + range/clamp monitors + zero-vs-fresh twin '
              'controllers, exact-size scratch buffer under ASan+UBSan',
)
