"""C12 - PID controllers stay within limits and follow their equations for every history (harness/h_pid.c)."""

SPEC = dict(
    harness=['h_pid.c'],
    # the default (double) build runs the full harness; the other two real widths run the compact type-generic companion h_pid_w.c
    configs=lambda tier: [dict(name='f64'), dict(name='f64-clang', libcc='clang', nworkers=4, of=8), dict(name='f64-o2', libflavour='san-o2', libdrop=['-fno-strict-aliasing'], nworkers=4, of=8), dict(name='f32', real=4, harness=['h_pid_w.c']), dict(name='f80', real=16, harness=['h_pid_w.c']),
                          dict(name='cxx', harness=['h_cxxw.c', 'h_cxxw_shim.cc'], hflags=['-DVF_CXXW=12'], nworkers=4)],
    parallel_configs=6,
    level='exploration',
    rule='every case is one history of 1..2000 (set-point, feedback) pairs fed to the real controller code with random switches between '
         'the run/pos/inc entry points, a_*_zero calls in mid-history (after which a freshly initialised twin controller is run alongside '
         'and must agree bitwise) and occasional re-tuning / limit changes through the public fields; inputs are iid, random walk, long '
         'saturation followed by a sign reversal of the error, a closed loop around an integer/real first-order plant, or piecewise constant; '
         'limit scenarios: wide, output tight, integrator tight, both, and the edges summax=0 / summin=0 / both 0 / outmin=outmax / an output '
         'interval not containing 0. Case mix per 20 cases: 6 plain exact, 2 plain pos-vs-inc pairs (exact), 3 plain real, 4 fuzzy exact, '
         '2 fuzzy real, 3 neuron, plus 1/80 of the case count appended as crisp-singleton histories (a zero-width GAUSS or GBELL set at a dyadic centre among ordinary sets, inputs on a dyadic grid steered exactly onto the centre on a third of the steps: whole state finite, output within limits, and bitwise agreement with a twin whose table lacks the set); the fuzzy cases enumerate operator (7) x rule-base order (1..7) cyclically, with random consequent tables '
         '(each of the three optionally NULL), membership tables built from mf.h (exact regime: tri/trap/lins/linz with integer break points '
         'and power-of-two flank widths; real regime: all 13 families) and the scratch buffer an exact-size malloc block of '
         'A_PID_FUZZY_BFUZZ(n), n = the largest number of overlapping membership supports. EXACT regime (integer inputs/limits, gains k/16): '
         'after every step sum/out/var/fdb/err (fuzzy: also the three scheduled gains) are compared with == against a __float128 reference '
         'written from the header equations (plain PID: an independent running reference over the whole history, plus the closed form and '
         'pos==inc while no limit has been active); fuzzy steps whose normaliser is not a power of two, and the neuron (division), are judged '
         'by a one-step __float128 evaluation of the documented equation on the controller\'s own previous state within 16*eps*sum|terms| '
         '(a-priori rounding bound <= 3.5 eps). REAL regime (|values| <= 1e6): output within [outmin,outmax], all state finite, integrator '
         'never moves further beyond a clamp it has reached, overshoots by at most one increment |ki*err|, moves by exactly ki*err when it '
         'moves, untouched by run/inc; limits/gains/configuration untouched; err/fdb/var (single roundings) bitwise. '
         'RECONFIGURATION: in every fourth block of 20 cases, seven cases (1 plain exact, 1 plain real, 2 fuzzy exact, 1 fuzzy real, 2 neuron) are reconfiguration-dense histories of 4..160 steps: '
         'about every 6th step is preceded by one reconfiguration through a documented route and the controller is zeroed about every 25 steps, each step being judged by the same oracles with the '
         'configuration in force at that step. fuzzy: a_pid_fuzzy_set_rule with another order (1..7) and membership tables or the same tables, every NULL pattern of (mkp, mki, mkd) (8 patterns, each required), '
         'a new exact-size scratch block through a_pid_fuzzy_set_bfuzz (always when the new tables need more, else half of the time; replaced tables and blocks are freed at once); a_pid_fuzzy_set_kpid; writes to the '
         'public base fields kp/ki/kd; a_pid_fuzzy_set_opr; a_pid_set_kpid on / writes to the gains of the embedded plain controller (the next fuzzy step recomputes base + offset); writes to the limit fields; '
         'the effective gain of a gain whose table is NULL equals the base gain in force bitwise after every step (all fuzzy histories). plain: a_pid_set_kpid, writes to kp/ki/kd, to the output and/or integrator limit pair. '
         'neuron: a_pid_neuro_set_kpid, a_pid_neuro_set_wpid, writes to k / wp / wi / wd / the learning constants, output limits. Setters store their arguments and leave state, limits and the other '
         'configuration untouched; the zero-vs-fresh twin is created with the configuration in force and receives every later reconfiguration through the setters. '
         'distinct_nontrivial counts distinct (controller, entry point run/pos/inc, fuzzy operator, rule-base order, set of limits active after '
         'the step: out=outmax, out=outmin, sum>=summax, sum<=summin) combinations in which at least one step was judged - NOT the number of '
         'steps (evaluations).',
    exhaustive={'quick': None, 'thorough': None},
    require=['pid-decimal-grid-limit-clause', 'fuzzy-e-table-shorter-than-the-rule-base', 'fuzzy-ec-table-shorter-than-the-rule-base', 'fuzzy-both-tables-packed-in-one-array', 'a_pid::pos', 'a_pid::inc', 'a_pid::run', 'a_pid_neuro::inc', 'a_pid_fuzzy::pos', 'a_pid_fuzzy::set_kpid', 'w-out-within-limits', 'w-state-finite', 'w-return-eq-out-field', 'w-limits-untouched', 'w-gains-untouched', 'w-cached-fields-bitwise', 'w-integrator-clamp-clauses',
             'w-equation-exact', 'w-equation-onestep', 'w-pos-eq-inc-while-no-limit-active', 'w-closed-form-while-no-limit-active', 'w-seen-first-limit-activation-in-pos-inc-pair',
             'w-init-on-garbage', 'w-zero-state-fields', 'w-zero-mid-history', 'w-fuzzy-scratch-layout', 'w-fuzzy-configuration-untouched', 'w-fuzzy-table-lookup-gains-exact',
             'w-fuzzy-gains-weighted-mean', 'w-fuzzy-threshold-lone-set', 'w-seen-fuzzy-no-set-fires', 'w-neuro-configuration-untouched-ec-bitwise', 'w-neuro-run-passes-setpoint-keeps-weights',
             'w-neuro-weight-update-onestep', 'w-neuro-output-onestep', 'w-neuro-zero-keeps-weights-clears-ec', 'w-neuro-zero-twin-bitwise', 'w-seen-output-at-a-limit',
             'w-seen-integrator-at-or-beyond-a-clamp', 'w-seen-integration-suspended', 'w-seen-output-clamped',
             'neuro-all-weights-zero-histories', 'out-within-limits', 'state-finite', 'return-eq-out-field', 'limits-untouched', 'gains-untouched', 'cached-fields-bitwise',
             'sum-untouched-by-run-inc', 'integrator-not-further-beyond-clamp', 'integrator-overshoot-le-one-increment',
             'integrator-step-eq-one-increment', 'equation-exact-sum', 'equation-exact-out', 'equation-onestep-sum', 'equation-onestep-out',
             'pos-eq-inc-while-no-limit-active', 'closed-form-while-no-limit-active', 'seen-first-limit-activation-in-pos-inc-pair',
             'init-zero-state', 'zero-state-fields', 'zero-mid-history', 'zero-twin-bitwise', 'retune-mid-history',
             'fuzzy-scratch-exact-size-block', 'fuzzy-bfuzz-getter', 'fuzzy-configuration-untouched', 'fuzzy-gains-exact', 'fuzzy-gains-within-tolerance',
             'seen-fuzzy-no-set-fires', 'neuro-configuration-untouched', 'neuro-ec-bitwise', 'neuro-run-passes-setpoint',
             'neuro-run-keeps-weights', 'neuro-weight-update-onestep', 'neuro-output-onestep', 'neuro-zero-keeps-weights-clears-ec',
             'neuro-twin-weights-bitwise', 'seen-output-at-outmax', 'seen-output-at-outmin', 'seen-integrator-at-or-beyond-summax',
             'seen-integrator-at-or-beyond-summin', 'seen-integration-suspended', 'seen-integrator-pulled-back-from-clamp',
             'fuzzy-singleton-histories', 'fuzzy-singleton-input-on-centre', 'fuzzy-singleton-on-centre-eq-twin-without-the-set', 'fuzzy-singleton-zero-mid-history',
             'seen-fuzzy-singleton-e-and-ec-on-centre',
             # reconfiguration between steps (added for seeded change C12-J: an effective gain that became state carried between calls)
             'fuzzy-rule-base-swapped-mid-history', 'fuzzy-rule-base-order-changed-mid-history', 'fuzzy-scratch-block-replaced-mid-history', 'fuzzy-rule-swap-drops-a-tuned-table',
             'fuzzy-swapped-to-tables/---', 'fuzzy-swapped-to-tables/p--', 'fuzzy-swapped-to-tables/-i-', 'fuzzy-swapped-to-tables/pi-', 'fuzzy-swapped-to-tables/--d',
             'fuzzy-swapped-to-tables/p-d', 'fuzzy-swapped-to-tables/-id', 'fuzzy-swapped-to-tables/pid',
             'fuzzy-null-table-gain-equals-base', 'fuzzy-set-kpid-mid-history', 'fuzzy-base-field-written-between-steps', 'fuzzy-set-opr-mid-history',
             'fuzzy-embedded-pid-gains-scribbled-between-steps', 'fuzzy-limit-field-written-between-steps', 'fuzzy-setter-stores-its-arguments', 'fuzzy-zero-after-reconfiguration',
             'zero-then-suffix-eq-fresh-after-reconfiguration', 'reconfiguration-leaves-state-untouched', 'steps-judged-after-reconfiguration',
             'pid-set-kpid-mid-history', 'pid-gain-field-written-between-steps', 'pid-limit-field-written-between-steps', 'configuration-fields-hold-what-was-written',
             'neuro-set-kpid-mid-history', 'neuro-set-wpid-mid-history', 'neuro-field-written-between-steps', 'neuro-limit-field-written-between-steps',
             'neuro-setter-stores-arguments-keeps-the-rest',
             'w-fuzzy-rule-base-swapped-mid-history', 'w-fuzzy-rule-swap-drops-a-tuned-table', 'w-fuzzy-null-table-gain-equals-base', 'w-fuzzy-base-gain-changed-mid-history',
             'w-fuzzy-embedded-pid-gains-scribbled'],
    cov_files=['pid.c', 'pid_fuzzy.c', 'pid_neuro.c'],
    cov_cases=400, cov_funcs=r'^a_pid_',
    workers={'quick': 24, 'thorough': 48},  # three configurations run side by side: 8 / 16 workers each (the two companions finish within seconds)
    timeout={'quick': 900, 'thorough': 7200},
    assumptions=[
        'only executions produced by this run are judged (runtime monitoring, not proof)',
        'gcc 12 / x86-64 LP64 little-endian, A_SIZE_POINTER=8; library rebuilt from /repo working tree with -fsanitize=address,undefined',
        'full harness (config f64): a_real = double (A_SIZE_REAL=8), SSE2 arithmetic, -ffp-contract=off: the exact regime relies on IEEE-754 binary64 operations being '
        'exact whenever the result is representable; == is used instead of a bit comparison so that the sign of a zero (which the equations '
        'do not determine) is not judged',
        'float and long double builds (configs f32: A_SIZE_REAL=4, SSE single; f80: A_SIZE_REAL=16, x87 extended) run the compact type-generic companion h_pid_w.c: '
        'histories of 1..96 steps with run/pos/inc switches, zero and re-tuning in mid-history (a third of the fuzzy histories are reconfigured about every 6th step: a_pid_fuzzy_set_rule with another NULL pattern of '
        'freshly allocated consequent tables, a_pid_fuzzy_set_kpid / writes to the base fields, writes to the gains of the embedded a_pid; untuned gain == base in force); integer inputs with gains k/16 (every partial sum a multiple of 2^-4 below 2^20, '
        'exact in any type with >= 24 bits) compared with == against a __float128 running reference (plain PID, pos == inc == closed form while no limit is active, and the fuzzy '
        'controller on integer-centred triangles where exactly one rule fires with weight 1, i.e. gains == base + consequent[e set][ec set]); half of the plain-PID histories are scaled as a '
        'whole (inputs and finite limits) by 2^-60, 2^-30, 2^-12, 2^30 or 2^40, which keeps them exact and exposes absolute thresholds tuned for one width; inputs that use the full mantissa of the '
        'working type judged by the one-step __float128 oracle within 16*eps*sum|terms| with eps = A_REAL_EPSILON of the working type (plain PID, neuron weights and output, fuzzy on a '
        'quarter grid with the weighted-mean gain clause of C13); range, finiteness, cached-field and integrator-clamp clauses on every step; every struct a garbage-filled exact-size '
        'malloc block before init, every table and the scratch buffer an exact-size malloc block (A_PID_FUZZY_BFUZZ restated with sizeof(a_real), idx/val regions inside it and disjoint); '
        'even scratch orders only in long double, where odd orders misalign the value area (observed, outside the property text)',
        'companion only, anchored at the implementation (pid_fuzzy.c a_pid_fuzzy_mf, the convention the C13 reference uses as well): a set fires iff its degree exceeds A_REAL_EPSILON of the '
        'WORKING type; judged on a lone set with degree in [4 eps, 64 eps] (must fire: gain = base + consequent, which the pure equations demand too) and in (0, eps/4] (must not fire: gain == base); '
        'the band in between is not judged',
        'the "documented difference equations" are read as: pid.h positional/incremental forms with the derivative taken on the measurement '
        '(fdb(k-1)-fdb(k), the form the property anchors and the source comment name; it equals e(k)-e(k-1) while the set-point is constant) '
        'and the anti-windup rule "integration is suspended iff the integrator has reached or passed summax/summin and the error does not '
        'point back" (pid.h prints this rule with a garbled connective; strictness at the boundary is taken from the implementation, so with '
        'summax = 0 or summin = 0 the integrator never leaves 0 - reported as an observation, not judged)',
        'quantifier: ki >= 0 (fuzzy: base ki plus every ki consequent > 0 or all exactly 0), summin <= 0 <= summax, outmin <= outmax, '
        '|inputs|, |gains|, |limits| <= 1e6 (or +-DBL_MAX for "unlimited"), so no intermediate overflows',
        'fuzzy: a set counts as firing when its membership is non-zero; in the exact regime memberships are 0 or >= 1/8, so the '
        'implementation\'s activation threshold (eps) cannot matter; ec(k) = e(k) - e(k-1); rule tables are indexed [e set][ec set]; when sets '
        'fire but every joint membership is 0 the reference expects the base gains (no rule contributes; this is the behaviour of the repaired library, commit e9ff772)',
        'neuron: pid_neuro.h defines w(k) through u(k) and u(k) through w(k); the reference uses the causal reading '
        'w(k) = w(k-1) + eta*e(k)*u(k-1)*x(k-1) with x(k-1) the regressors cached by the previous step (whatever entry point that was), and '
        'u(k) = sat(u(k-1) + K*sum(w x)/sum|w|) exactly as printed; steps where all three weights are 0 (0/0) are executed but the output is '
        'judged for range only',
        'a_*_zero "behaves as freshly initialised": compared against a second controller object created from garbage-filled memory with the '
        'same gains/limits/tables (neuron: the weights the zeroed controller holds at that moment) and a_*_init',
        'reconfiguration between steps is part of "every history ... any gains and limits": the headers give setters (a_pid_set_kpid, a_pid_fuzzy_set_rule/set_kpid/set_opr/set_bfuzz, a_pid_neuro_set_kpid/set_wpid) '
        'without restricting them to the time before the first step, and document the configuration as public fields (a_pid has no limit setter; test/pid_fuzzy.h writes limits, tables, order and operator through the fields). '
        'The documented equations are read with the configuration in force at the step: fuzzy effective gain = base constant (field kp/ki/kd of a_pid_fuzzy, "base ... constant") + mean-of-centres offset of the rule table in force, '
        'offset 0 for a gain whose table pointer is NULL; the gains of the embedded a_pid are the place where a fuzzy step stores base + offset, so their previous content (including a direct a_pid_set_kpid on the embedded controller) '
        'does not influence a fuzzy step. Within a reconfigured history the quantifier is kept: base ki + every ki consequent in force >= 0, lower <= upper limits, summin <= 0 <= summax',
    ],
    level_text='The property quantifies over every history; it is decided here by executing the real a_pid / a_pid_fuzzy / a_pid_neuro code on '
               'many histories and judging every step. Where the arithmetic can be made exact (integer inputs, dyadic gains, dyadic '
               'membership tables) the oracle is equality with an independently written __float128 recurrence, so a wrong sign, a swapped '
               'operand, a stale cache field or an off-by-one table index cannot hide behind a tolerance; where a division makes exactness '
               'impossible the documented equation is evaluated in __float128 on the controller\'s own previous state with an a-priori '
               'rounding bound. Range, finiteness and integrator-clamp clauses are judged on arbitrary real data as well. The fuzzy '
               'scratch buffer contract is watched by ASan on an exact-size block. Exploration: histories, gains and tables are sampled; '
               'operator x order combinations are enumerated. Configuration is not only established once: a share of the histories is '
               'reconfigured between steps through every setter and public configuration field (rule base, NULL pattern of the consequent tables, scratch block, base gains, operator, '
               'limits, neuron weights and coefficients), so that an effective gain or any other derived quantity that survives from an earlier configuration shows against the reference '
               'evaluated with the configuration in force.',
    level_note='trusted: libquadmath/gcc __float128 arithmetic and the harness reference recurrences; histories are at most 2000 steps; '
               'fuzzy gain values in the real regime are judged by C13, not here; overruns that stay inside the scratch allocation are visible '
               'only through a wrong gain; the float and long double builds (A_SIZE_REAL=4 / 16) execute the compact companion h_pid_w.c only (histories <= 96 steps, triangular membership tables, '
               'neuron judged by the one-step oracle), not the full history/table/operator plan of h_pid.c; the C++ wrappers are not executed',
    technique='exact-arithmetic reference recurrence (bitwise) + one-step binary128 oracle + range/clamp monitors + zero-vs-fresh twin '
              'controllers, exact-size scratch buffer under ASan+UBSan; reconfiguration-dense histories (every setter and public configuration field between steps, '
              'rule bases / scratch blocks swapped and freed in mid-history) judged with the configuration in force; float / long double companion; C++ member vs C function twin execution',
)
