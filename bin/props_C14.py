"""C14 - velocity-profile trajectories (a_trajtrap_*, a_trajbell_*): per-property configuration of bin/check."""

_CLAUSES = ['phase-times', 'start-position', 'start-velocity', 'end-position', 'end-velocity', 'hold-before-start',
            'hold-after-end', 'position-continuity', 'velocity-continuity', 'velocity-limit',
            'position-step-exceeds-velocity-limit']
_BELL_ONLY = ['start-acceleration', 'end-acceleration', 'acceleration-continuity', 'acceleration-limit', 'jerk-limit',
              'velocity-step-exceeds-acceleration-limit', 'acceleration-step-exceeds-jerk-limit']

_BRANCHES = ['trap.branch.cruise', 'trap.branch.accel-only', 'trap.branch.decel-only', 'trap.branch.accel-decel',
             'bell.branch.cruise', 'bell.branch.nocruise-amax', 'bell.branch.nocruise-reduced-acceleration',
             'bell.branch.decel-only', 'bell.branch.accel-only']

_W_CLAUSES = ['phase-times', 'start-state', 'end-state', 'hold-outside', 'position-continuity', 'velocity-continuity', 'velocity-limit',
              'evaluator-vs-documented-formula', 'exact-duration', 'exact-kinematics']
_W_BELL_ONLY = ['acceleration-continuity', 'acceleration-limit', 'jerk-limit', 'plan-vs-documented-formula']
_W_BRANCHES = ['w-trap.branch.cruise', 'w-trap.branch.accel-only', 'w-trap.branch.decel-only', 'w-trap.branch.accel-decel',
               'w-bell.branch.cruise', 'w-bell.branch.nocruise-amax', 'w-bell.branch.nocruise-reduced', 'w-bell.branch.decel-only',
               'w-bell.branch.accel-only']

try:
    _HAS_FMA = ' fma ' in open('/proc/cpuinfo').read()
except OSError:
    _HAS_FMA = False

SPEC = dict(
    harness=['h_traj.c'],
    # the default (double) build runs the full harness; the other two real widths run a compact type-generic companion
    configs=lambda tier: [dict(name='f64'), dict(name='f64-clang', libcc='clang', nworkers=4, of=8), dict(name='f64-o2', libflavour='san-o2', libdrop=['-fno-strict-aliasing'], nworkers=4, of=8), dict(name='f32', real=4, harness=['h_traj_w.c']), dict(name='f80', real=16, harness=['h_traj_w.c']),
                          dict(name='cxx', harness=['h_cxxw.c', 'h_cxxw_shim.cc'], hflags=['-DVF_CXXW=14'], nworkers=4)] +
                         # ISA axis: with -mfma <math.h> defines FP_FAST_FMA*, which selects other arms of conditional code (only where the CPU has it)
                         ([dict(name='f80-fma', real=16, harness=['h_traj_w.c'], cflags=['-mfma'], nworkers=3)] if _HAS_FMA else []),
    parallel_configs=7,
    level='exploration',
    rule='requests are drawn at random (log-uniform limits 1e-3..1e3, distances 1e-6..1e6 in both directions, boundary velocities '
         '0 / +-vm / random / along or against the direction of travel) or solved to sit at a planning-branch condition '
         '(trapezoid: vc^2 ~ vm^2, v0^2, v1^2; bell: tv ~ 0, ta ~ 2 taj, td ~ 2 tdj, single-phase requests just above the feasibility '
         'distance, short moves that need the iterative acceleration reduction). Only requests inside the stated domain for which the '
         'generator returned a finite duration > 0 are judged; the others are generated, executed and counted (monitors "*.outside.*"). '
         'Every case also runs 4 (companion: 2) two-call sequences on ONE context: a first plan drawn so that the values the generator records '
         'differ from the requested ones (bell: ctx->am / ctx->vm hold the REACHED acceleration / velocity, braking side in ctx->dm; trapezoid: '
         'ctx->vc, ctx->v1), then a second request whose arguments are read back from those fields (exactly; one argument x2, x1/2, +-1 ulp; p1 '
         'moved; v1 changed; limits only with a new move; -dm as am; the first request with one limit read back) - filtered and judged as a '
         'request of its own against ITS limits (monitors "replan.*"). '
         'evaluations = judged profiles (each with ~1.7e3 pos/vel/acc/jer queries). distinct_nontrivial = distinct '
         '(generator, planning branch taken [read off the generated context], direction of travel, set of limits reached: '
         'peak velocity = vm, |v0| = vm, |v1| = vm, bell: am reached, -am reached) combinations with at least one fully checked profile '
         '- NOT the number of requests. The float and long double configurations (harness/h_traj_w.c) add their own judged profiles '
         '(~0.7e3 queries each; half of them exact-regime requests built from dyadic values) to evaluations and their own cells '
         '(width, generator, branch, direction, exact or random regime) to distinct_nontrivial.',
    exhaustive={'quick': None, 'thorough': None},
    require=['bell-requests-with-the-velocity-limit-switched-off', 'round-number-requests', 'context-zeroed', 'context-garbage', 'context-reused-after-cruise-plan', 'twin-fresh-context',
             # second request on a used context, arguments read back from the fields the first plan recorded (judged against ITS limits) + twin
             'replan-with-limits-read-back-from-context', 'replan-readback-twin-fresh-context', 'replan.trap.judged', 'replan.bell.judged',
             'replan.judged.exact', 'replan.judged.first-plan-reached-differs-from-asked', 'replan.first.bell.cruise-braking-harder-than-run-up',
             'w-replan-with-limits-read-back-from-context', 'w-replan-readback-twin-fresh-context',
             'a_trajtrap::gen', 'a_trajtrap::gen(5 args)', 'a_trajbell::gen(6 args)', 'a_trajbell::jer', 'a_trajtrap::pos', 'w-trap.judged', 'w-bell.judged'] + _W_BRANCHES
            + ['w-trap.' + c for c in _W_CLAUSES] + ['w-bell.' + c for c in _W_CLAUSES + _W_BELL_ONLY]
            + ['trap.judged', 'bell.judged']
            + [b + d for b in _BRANCHES for d in ('', '.forward', '.reversed')]
            + ['trap.' + c for c in _CLAUSES] + ['bell.' + c for c in _CLAUSES + _BELL_ONLY],
    cov_files=['trajtrap.c', 'trajbell.c'],
    cov_cases=200, cov_funcs=r'^a_traj(trap|bell)_',
    assumptions=[
        'only executions produced by this run are judged (runtime monitoring, not proof)',
        'gcc 12 / x86-64 LP64 little-endian, A_SIZE_POINTER=8; library rebuilt from /repo working tree with -fsanitize=address,undefined',
        'full harness: a_real = double (A_SIZE_REAL 8). The float (A_SIZE_REAL 4) and x87 long double (A_SIZE_REAL 16) builds run the compact '
        'type-generic companion h_traj_w.c only (monitors "w-*", keys ending in /f32, /f80): the same kinematic clauses and scale model with '
        'eps = A_REAL_EPSILON on a smaller workload (phase times, start/end state, hold, continuity, limits at boundaries + 64 instants; no '
        'grid-step and no extrema clauses), plus an exact regime (dyadic requests whose phase durations are designed first: returned duration and '
        'pos/vel/acc/jer on a 1/8 time grid compared with == against the binary128 integral of the designed acceleration/jerk phases; all four '
        'trapezoid branches, bell cruise and no-cruise-amax branches), a one-step binary128 oracle of the evaluators against the formulas '
        'documented in trajtrap.h/trajbell.h (16/8/4 eps * sum|terms|) and the documented closed forms of the bell planner (steps 1-3 and 4/4c); '
        'contexts are exact-size heap blocks pre-filled with 0xA5',
        'companion only: unit_v and unit_p also carry the second-order terms jhat*delta^2 and ahat*delta^2 + jhat*delta^3 of the time error '
        'delta = eps*T + dt; in float a jerk phase can be shorter than the resolution of time (eps*T = 0.06 at T = 1e6 against am/jm = 3e-6), '
        'the phase boundaries then collapse and the neighbouring polynomial is evaluated outside its phase (monitor '
        '"w-bell.weak.jerk-phase-below-time-resolution" counts these profiles); for delta below the jerk time the terms are below ahat*delta',
        'domain as in DESIGN.md C14: trapezoid finite vm>0, ac*dir>0, de*dir<0, p1!=p0, |v0|,|v1|<=vm; bell finite jm,am,vm>0, '
        '|v0|,|v1|<=vm and the Biagiotti-Melchiorri feasibility condition (evaluated in binary128); and the generator returned a duration > 0',
        'the property states no numerical tolerance: a clause is refuted only beyond C*(eps*S + measured conditioning of the request), '
        'C=16 trapezoid / 256 bell, S the kinematic scale of the profile: S_p=|p0|+|p1|+v*T+v^2/a_min(+v*a/j), S_v=v+a*T, S_a=a+j*T from the '
        'magnitudes recorded in the context, plus eps*v*(|ac|+|de|)/|de| on the velocity limit of the trapezoid accel-only branch and '
        'j*T^2 / j*T^3 in S_v / S_p of the bell single-phase branches (rounding analysis in the header of harness/h_traj.c); worst observed '
        'error/unit over 19.7e6 profiles: 1.45 trapezoid, 1.47 bell (monitors "ratio.*" report it per run)',
        'requests whose +-2 ulp neighbourhood contains a request the generator declines have no finite tolerance and are counted, not judged '
        '(monitor "*.not-judged.tolerance-unbounded"); "*.tolerance-inflated>1e3-by-conditioning" and "*.weak.*" count the profiles whose '
        'tolerance was widened by the measured conditioning, so that vacuity is visible',
        'fresh-context twin (RECORDED, not judged; monitor "twin-differs-from-fresh-context(not judged)"): for every request inside the domain with a positive '
        'duration the same arguments are planned once more on a fresh garbage-filled (0xA5) context and duration, recorded fields and samples are compared bitwise. '
        'On the pinned tree they never differ; it is not judged because the property does not state that a plan is independent of what the context held before - '
        'a warm-started or cached but correct generator would differ in the last bits. The plan made on the used context is judged by every ordinary clause against the limits of ITS request',
        'a request for which the generator reports no positive duration is outside the property (counted per direction in '
        '"*.outside.generator-declined.*"); the sign of a_trajbell_jer/acc is not constrained by the property, only magnitudes and continuity',
        'limits are judged at phase boundaries (both sides), sign changes of vel/acc located by bisection, 301 uniform and 100 random '
        'instants per profile - not at every real instant',
    ],
    level_text='Every generated profile inside the domain (including second requests on a used context whose arguments are read back from the '
               'fields the first plan recorded) is judged by kinematic monitors: phase durations, start state, end state as the '
               'one-sided limit at T, hold outside [0,T], continuity of pos/vel(/acc) across every phase boundary as one-sided limits '
               '(nextafter), |vel|<=vm (bell: |acc|<=am, |jer|<=jm) at boundaries, extrema and 401 instants, and the step between '
               'neighbouring grid samples against the limit of the next derivative. The request space is continuous (7 reals), so it is '
               'sampled, with requests solved onto every branch condition of both planners; per-branch counts and worst error ratios are reported.',
    level_note='trusted: the harness tolerance model (scale S and +-2 ulp conditioning re-runs through the same generator), binary128 '
               'feasibility test, libm sqrt/nextafter; phase boundaries of the bell profile are taken as the expressions the evaluators use '
               '(ta-taj, ta+tv, t-td, t-td+tdj, t-tdj), a jump elsewhere is only seen by the grid-step clauses; request space sampled, not enumerated; '
               'float / long double: compact companion with fewer instants per profile (see assumptions), its one-step and closed-form oracles restate the '
               'formulas documented in the two headers; a change that only alters WHICH requests the bell planner declines (e.g. the A_REAL_EPSILON '
               'floor of its acceleration search) is outside the property and not judged in any width',
    technique='randomised + branch-targeted request generation with kinematic runtime monitors (one-sided limits, scale- and '
              'conditioning-aware tolerances) under ASan+UBSan; float / long double: exact dyadic regime (==) + binary128 one-step and '
              'closed-form oracles'
              '; float / long double companion harness; C++ member vs C function twin execution on one object',
    # three configurations run side by side and share the workers evenly: 8 / 16 per configuration, as the double harness had before
    workers={'quick': 24, 'thorough': 48},
)
