_COMMON = [
    'only executions produced by this run are judged (runtime monitoring, not proof)',
    'gcc 12 / x86-64 LP64 little-endian; library rebuilt from /repo working tree with -fsanitize=address,undefined',
]
SPEC = dict(
    harness=['h_str.c'],
    level='exploration',
    memcheck_cases={'thorough': 1600},
    rule='seeded histories of 30-70 operations on two string objects: all append forms (catc/catn/cats/cat and their non-terminating _ twins, catf and '
         'catv with formats from a closed printf grammar, a_utf_catc), getc/getn (+_), the six trim entry points with 7 trim sets (empty = whitespace, '
         'sets containing NUL and bytes >= 0x80), setn/setn_, setm/setm_ (incl. exact fit len == mem), swap, exit + re-use, cmp/cmpn/cmps/cmp_, at/of. '
         'Append sizes and formatted-output lengths are steered to spare-2 .. spare+2 of the current capacity (the two-pass vsnprintf path). After EVERY '
         'call: length, length <= capacity, all bytes vs a byte-vector model; after terminating variants NUL directly behind the content inside the '
         'capacity; formatted append return value and bytes == snprintf for the same format and arguments; comparison sign == bytewise lexicographic '
         'then length. distinct_nontrivial = distinct (operation, spare-capacity class {<need, =need, =need+1, >need+1}, terminated-before?) combinations.',
    exhaustive={},
    require=['state-compared-with-model', 'terminator-after-content-inside-capacity', 'formatted-append-equals-libc-formatter',
             'utf_catc-appends-encoding-plus-nul', 'getc-returns-last-byte', 'getn-returns-tail-bytes',
             'trim-removes-exactly-the-set-members-at-the-ends', 'setn-bounds', 'setm-capacity', 'swap',
             'exit-hands-over-terminated-content', 'cmp-orders-like-bytewise-lexicographic-then-length', 'accessors', 'ctor-dtor-on-caller-storage'],
    cov_files=['str.c'], cov_cases=600,
    assumptions=_COMMON + ['libc snprintf is the oracle for formatted append (the property says "what the C formatter produces")',
                           'a_str_setm_ is only called with mem >= length; a_str_setn_ only with num < mem (documented preconditions)',
                           'whitespace for the empty trim set is the C-locale isspace set'],
    level_text='Byte-vector reference model compared after every call over seeded histories whose append sizes are steered onto the capacity boundary, with '
               'every string buffer an exact-size malloc block under ASan (1-byte overruns are red-zone hits). Histories are unbounded; seeded sampling '
               'with boundary targeting is the reachable level.',
    level_note='trusted: harness byte model, libc snprintf; a_utf_encode (judged separately by C18) provides the expected bytes of a_utf_catc',
    technique='seeded operation histories against a byte-vector model, libc formatter oracle, ASan red zones at the capacity boundary',
)
