_COMMON = [
    'only executions produced by this run are judged (runtime monitoring, not proof)',
    'gcc 12 / x86-64 LP64 little-endian; library rebuilt from /repo working tree with -fsanitize=address,undefined',
]
SPEC = dict(
    lsan=True,
    harness=['h_str.c'],
    # second configuration: counts/capacities near the top of the index type against a ledger allocator (harness/h_huge.c)
    configs=lambda tier: [dict(name='default'), dict(name='huge', harness=['h_huge.c'], hflags=['-DVF_HUGE=6'], nworkers=2),
                          dict(name='arena', harness=['h_arena.c'], hflags=['-DVF_ARENA=6'], nworkers=2),  # operands at exact distances from the storage block (arena allocator through a_alloc)
                          dict(name='clang', libcc='clang', nworkers=4, of=8), dict(name='o2', libflavour='san-o2', libdrop=['-fno-strict-aliasing'], nworkers=4, of=8)],  # library compiled by clang: half of the cases
    parallel_configs=5,
    level='exploration',
    memcheck_cases={'thorough': 1600},
    rule='seeded histories of 30-70 operations on two string objects: all append forms (catc/catn/cats/cat and their non-terminating _ twins, catf and '
         'catv with formats from a closed printf grammar, a_utf_catc), getc/getn (+_), the six trim entry points with 7 trim sets (empty = whitespace, '
         'sets containing NUL and bytes >= 0x80), setn/setn_, setm/setm_ (incl. exact fit len == mem), swap, exit + re-use, cmp/cmpn/cmps/cmp_, at/of. '
         'Append sizes and formatted-output lengths are steered to spare-2 .. spare+2 of the current capacity (the two-pass vsnprintf path). After EVERY '
         'call: length, length <= capacity, all bytes vs a byte-vector model; after terminating variants NUL directly behind the content inside the '
         'capacity; formatted append return value and bytes == snprintf for the same format and arguments; comparison sign == bytewise lexicographic '
         'then length. distinct_nontrivial = distinct (operation, spare-capacity class {<need, =need, =need+1, >need+1}, terminated-before?) combinations '
         'plus, for the large class, distinct (operation, floor(log2(length))) pairs at which the complete state was compared. '
         'LARGE class (case numbers = 40 mod 41 in quick: 146 cases; = 330 mod 331 in thorough: 4531 cases; 9 scenarios in rotation; kmax = 16 quick / 20 thorough): '
         'lengths are driven through 2^k-2..2^k+2 for every k <= kmax (65534..65538 bytes quick, 1048574..1048578 thorough) (a) by single-byte calls '
         '(catc/catc_/catn(1)/catn_(1)/cats(1)/a_utf_catc, from empty to > 65545 in both tiers, single-byte windows 2^k-6..2^k+6 for k = 17..20 in thorough, '
         'five single pops back over each boundary), (b) by blocks through catn/catn_/cats/cats_/cat/cat_ (one block of 2^16+-2 bytes into a fresh object, blocks of ~2^(k-1)), '
         '(c) by ONE catf/catv call each ("%*s", "%-*s", "%s", "%.*s", "[%s|%s]", "%0*d", "%x|%s|%c" with long arguments/widths; outputs > 4096 and > 65536 bytes, up to 2^kmax bytes; '
         'against a reserved spare capacity at spare-2..spare+2 = one-pass vs two-pass vsnprintf, into a null-storage object and into an exactly full object); '
         'setn shrink/re-grow inside the capacity, setn(mem), setn(mem+1), setn_, setm, setm_ exact fit (len == mem) followed by a call that must make room; '
         'six trim entry points on strings with leading/trailing runs of 2^k+-1 set members (up to 2^kmax) around cores of up to 2^kmax bytes; '
         'getn/getn_ chunks landing on every 2^k+d going down, then getc/getc_/getn(1) pops from > 65536 to empty; swap long<->short then appends to both; '
         'exit of long strings (terminated / unterminated with spare / exactly full) + immediate re-use; cmp/cmpn/cmps/cmp_ of strings of 2^k-1..2^k+1 bytes that are equal, '
         'differ only in the last byte (also across 0x7F/0x80), only in length (+-1 byte, the extra byte NUL half of the time), or in one inner byte. '
         'Judged: a heap byte-array model against length, length <= capacity, EVERY byte and the terminator after every structural call and at 2^k-2..2^k+2 inside single-byte runs '
         '(in between every call O(1): return value, length, capacity, terminator, last 16 bytes); popped bytes into exact-size pre-scrambled buffers; formatted append vs snprintf '
         'with the same format and arguments. During a large case the public a_alloc hook points at a wrapper of the default a_alloc_ that fills every grown region with 0xA5 '
         '(fresh pages are zero and ASan pattern-fills only 4096 bytes, so a missing terminator at a large offset would otherwise pass by luck). '
         'ARENA configuration (harness/h_arena.c, 2000 histories quick / 20000 thorough of 30-70 operations on two strings): a_alloc is a bump allocator over one region the harness owns byte by byte '
         '(blocks aligned to 16 / 8 / 1, growth in place or always moving, released and moved-from blocks poisoned; drawn per case); the sources of catn/catn_/cats/cats_, the string argument of catf '
         '("%s", "%.*s" unterminated, "<%s>", "%d:%s"), the trim sets, the operands of cmpn/cmps and the DESTINATION of getn/getn_ are placed directly behind the current storage block (distance 0), one '
         'byte further, directly in front of it (a C string then ends with its NUL on the last byte before the block), one byte further in front, inside a released former block of the same string, '
         'or outside the arena; the other string of cat/cat_/cmp gets its storage carved directly behind this string\'s block; append sizes are steered to spare-2..spare+2 and a quarter of the appends '
         'start from len == mem (reached through catn_). After every call: the clauses above (length, capacity, bytes, terminator, formatter oracle, comparison sign), capacity <= bytes granted, operand '
         'bytes unchanged (getn: exactly the popped tail arrived, the rest of the destination untouched), every byte of the region outside the live blocks equal to its shadow copy; at the end every block released.',
    exhaustive={},
    require=['formatted-append-with-a-failing-conversion', 'arena-state-compared-with-model', 'arena-non-owned-bytes-verified', 'arena-caller-operand-unchanged', 'arena-operand-directly-behind-storage', 'arena-operand-directly-in-front',
             'arena-operand-one-element-behind-storage', 'arena-operand-one-element-in-front', 'arena-operand-in-released-former-block', 'arena-growth-moved-block-with-adjacent-operand',
             'arena-growth-in-place', 'arena-append-growth-with-source-directly-behind', 'arena-append-exactly-full-source-directly-behind', 'arena-other-string-storage-directly-behind',
             'arena-formatted-append-adjacent-argument', 'arena-trim-set-adjacent', 'arena-cmp-operand-adjacent', 'arena-getn-destination-adjacent', 'arena-terminator-after-content-inside-capacity',
             'arena-exit-hands-over-terminated-content',
             'append-of-own-content', 'append-of-own-c-string-tail', 'cmp-with-own-storage-as-other-operand', 'trim-set-is-window-of-own-content', 'trim-set-is-window-of-own-content-both-ends-removed', 'trim-set-window-reaches-past-the-new-end', 'getn-into-window-of-own-content', 'huge-str-setm', 'huge-str-setm_', 'huge-str-setn', 'huge-str-catf-width', 'state-compared-with-model', 'terminator-after-content-inside-capacity', 'formatted-append-equals-libc-formatter',
             'utf_catc-appends-encoding-plus-nul', 'getc-returns-last-byte', 'getn-returns-tail-bytes',
             'trim-removes-exactly-the-set-members-at-the-ends', 'setn-bounds', 'setm-capacity', 'swap',
             'exit-hands-over-terminated-content', 'cmp-orders-like-bytewise-lexicographic-then-length', 'accessors', 'ctor-dtor-on-caller-storage',
             # large-size / long-history class
             'large-cases-run', 'large-full-state-compared', 'large-step-checked', 'large-state-compared-at-len-ge-65536',
             'large-alloc-grown-region-junk-filled',
             'large-pow2-window-length-visited-by-single-appends', 'large-pow2-boundary-crossed-downward-by-single-pops',
             'large-pow2-window-length-reached-by-block', 'large-block-append-ge-65536',
             'large-pow2-window-length-reached-by-formatted-append', 'large-formatted-append-over-4096', 'large-formatted-append-over-65536',
             'large-formatted-one-pass-over-4096', 'large-formatted-two-pass-over-4096', 'large-formatted-append-into-exactly-full-object',
             'large-setn-regrow-over-4096', 'large-setm-exact-fit-judged', 'large-exactly-full-at-len-ge-4096',
             'large-trim-run-ge-65536', 'large-trim-moves-over-4096-bytes-to-the-front', 'large-trim-empties-long-string',
             'large-getn-chunk-ge-65536', 'large-pow2-window-length-reached-by-pop', 'large-pow2-window-length-visited-by-single-pops',
             'large-swap-long-with-short', 'large-exit-of-len-ge-4096', 'large-exit-exactly-full-len-ge-4096',
             'large-cmp-long-differing-only-in-last-byte', 'large-cmp-long-differing-only-in-length', 'large-cmp-differing-only-in-a-byte-at-index-ge-65536'],
    cov_files=['str.c'], cov_cases=600,
    assumptions=_COMMON + ['libc snprintf is the oracle for formatted append (the property says "what the C formatter produces")',
                           'a_str_setm_ is only called with mem >= length; a_str_setn_ only with num < mem (documented preconditions)',
                           'whitespace for the empty trim set is the C-locale isspace set',
                           'arena configuration: caller operands never overlap live storage; the library may write anywhere inside its own live blocks and nowhere else; a block handed over by a_str_exit is released through a_alloc',
                           'large class: storage obtained through the a_alloc hook may hold arbitrary bytes (the harness fills grown regions with 0xA5); '
                           'lengths stay below ~2^18 bytes in quick and ~2^21 bytes in thorough; one formatted append produces at most ~2^20 bytes (the int range of the formatter result is never approached)'],
    level_text='Byte-vector reference model compared after every call over seeded histories whose append sizes are steered onto the capacity boundary, with '
               'every string buffer an exact-size malloc block under ASan (1-byte overruns are red-zone hits). A second case class repeats the comparison at lengths through every '
               'power of two up to 2^16 (quick) / 2^20 (thorough) with a heap model, dense complete-state checkpoints at 2^k-2..2^k+2 and junk-filled fresh storage. '
               'Histories are unbounded; seeded sampling with boundary targeting is the reachable level.',
    level_note='trusted: harness byte model, libc snprintf; a_utf_encode (judged separately by C18) provides the expected bytes of a_utf_catc',
    technique='seeded operation histories (small, and large through 2^16..2^20 bytes) against a byte-vector model with an independent UTF-8 encoder, libc formatter oracle, operands aliasing the own storage, ledger allocator for capacities near SIZE_MAX, arena allocator with caller operands at exact distances from the storage block and a shadow copy of every non-owned byte, ASan/LeakSanitizer red zones at the capacity boundary',
)
