_COMMON = [
    'only executions produced by this run are judged (runtime monitoring, not proof)',
    'gcc 12 / x86-64 LP64 little-endian, A_SIZE_POINTER=8 (packed parent/balance word); library rebuilt from /repo working tree with -fsanitize=address,undefined',
]
import os as _os, re as _re


def _minalign(hdr):
    """the node alignment the header documents as sufficient for the packed parent word, or None"""
    try:
        t = open(_os.path.join(_os.environ.get('VF_REPO', '/repo'), 'include', 'a', hdr)).read()
    except OSError:
        return []
    m = _re.search(r'must be (\d+)-byte aligned', t)
    return [int(m.group(1))] if m and int(m.group(1)) in (2, 4, 8) else []


SPEC = dict(
    harness=['h_tree.c'],
    configs=lambda tier: [dict(name='packed'), dict(name='unpacked', cflags=['-DA_SIZE_POINTER=1']), dict(name='clang', libcc='clang'), dict(name='o2', libflavour='san-o2', libdrop=['-fno-strict-aliasing']),
                          dict(name='unpacked-uchar', cflags=['-DA_SIZE_POINTER=1', '-funsigned-char', '-funsigned-bitfields'])] +
                         [dict(name='minalign', cflags=['-fno-sanitize=alignment'], hflags=['-DVF_MINALIGN=%d' % n]) for n in _minalign('avl.h')],
    parallel_configs=6,
    workers={'quick': 12, 'thorough': 16},
    level='exploration',
    rule='(1) every AVL shape reachable through the real library with <= N nodes (N=15 quick, 20 thorough) is enumerated by a fixpoint over '
         'insert/remove transitions; on each shape EVERY insert position (n+1 gaps), every remove (n nodes), every duplicate insert (with a fresh equal-key node and with the resident node object itself) and every '
         'lookup is executed through the library and followed by the invariant walker (BST order, |hR-hL|<=1, stored factor == hR-hL, parent '
         'links, node identity, element set == model) - because the code only compares keys this is every (state, operation) pair of every '
         'history whose tree stays within N nodes. (2) seeded random/adversarial histories (9 patterns, key spaces 8..4096, a_avl_insert and the '
         'manual link + a_avl_insert_adjust path) with the walker after every call. Both node layouts are built and driven: the packed parent/meta word (default on this platform) and the separate-member layout (-DA_SIZE_POINTER=1; N-2 in quick). distinct_nontrivial = number of distinct canonical '
         '(structure + stored factors) trees on which the walker ran after an operation.',
    exhaustive={'quick': 'all (shape, operation) pairs for reachable AVL shapes with <= 15 nodes',
                'thorough': 'all (shape, operation) pairs for reachable AVL shapes with <= 20 nodes'},
    require=['walker-runs', 'bfs-insert-transitions', 'bfs-remove-transitions', 'dup-insert-returns-resident', 'dup-insert-of-resident-object',
             'insert-returns-null-for-new-key', 'search-agrees-with-model'],
    cov_files=['avl.c'], cov_funcs=r'^a_avl_(?!head|tail|next|prev|pre_|post_|tear)', cov_cases=120,
    assumptions=_COMMON + ['removed nodes are free()d immediately, so a stale link is reported by ASan as use-after-free',
                           'shapes above N nodes are sampled by the random histories only'],
    level_text='Bounded-exhaustive over tree shapes (every reachable AVL shape up to N nodes x every possible single operation, executed through the '
               'real code and judged by a structural walker + sorted-array model after every call) plus long random/adversarial histories up to 4096 '
               'nodes. Exhaustive-in-the-small is the right level: rebalancing cases depend only on local shape, and all of them occur below ~12 nodes.',
    level_note='trusted: the harness walker/model; shapes are re-materialised by cloning library-produced structures through the public node fields; '
               'the unpacked node layout is built with -DA_SIZE_POINTER=1 on this 64-bit host (pointers stay 8 bytes wide)',
    technique='bounded-exhaustive shape enumeration + random histories in both node layouts, invariant walker and reference model after every call, comparators of arbitrary magnitude, ASan/UBSan',
)
