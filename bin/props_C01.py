_COMMON = [
    'only executions produced by this run are judged (runtime monitoring, not proof)',
    'gcc 12 / x86-64 LP64 little-endian, A_SIZE_POINTER=8 (packed parent/balance word); library rebuilt from /repo working tree with -fsanitize=address,undefined',
]
import os as _os, re as _re


def _minalign(hdr):
    """the node alignment the header documents as sufficient for the packed parent word, or None"""
    try:
        t = open(_os.path.join(_os.environ.get('VF_REPO', '/repo'), 'include', 'a', hdr)).read()
    except OSError:
        return []
    m = _re.search(r'must be (\d+)-byte aligned', t)
    return [int(m.group(1))] if m and int(m.group(1)) in (2, 4, 8) else []


SPEC = dict(
    harness=['h_tree.c'],
    configs=lambda tier: [dict(name='packed'), dict(name='unpacked', cflags=['-DA_SIZE_POINTER=1']), dict(name='clang', libcc='clang'), dict(name='o2', libflavour='san-o2', libdrop=['-fno-strict-aliasing']),
                          dict(name='unpacked-uchar', cflags=['-DA_SIZE_POINTER=1', '-funsigned-char', '-funsigned-bitfields'])] +
                         [dict(name='minalign', cflags=['-fno-sanitize=alignment'], hflags=['-DVF_MINALIGN=%d' % n]) for n in _minalign('avl.h')] +
                         # trees taller than 32 levels (h_tree_deep.c): UBSan-only optimised build, two workers of their own (not a share of the 12)
                         [dict(name='deep', harness=['h_tree_deep.c'], flavour='ubsan', nworkers=2),
                          dict(name='deep-unpacked', harness=['h_tree_deep.c'], cflags=['-DA_SIZE_POINTER=1'], flavour='ubsan', nworkers=2)],
    parallel_configs=8,
    workers={'quick': 12, 'thorough': 16},
    level='exploration',
    rule='(1) every AVL shape reachable through the real library with <= N nodes (N=15 quick, 20 thorough) is enumerated by a fixpoint over '
         'insert/remove transitions; on each shape EVERY insert position (n+1 gaps), every remove (n nodes), every duplicate insert (with a fresh equal-key node and with the resident node object itself) and every '
         'lookup is executed through the library and followed by the invariant walker (BST order, |hR-hL|<=1, stored factor == hR-hL, parent '
         'links, node identity, element set == model) - because the code only compares keys this is every (state, operation) pair of every '
         'history whose tree stays within N nodes. (2) seeded random/adversarial histories (9 patterns, key spaces 8..4096, a_avl_insert and the '
         'manual link + a_avl_insert_adjust path) with the walker after every call. Both node layouts are built and driven: the packed parent/meta word (default on this platform) and the separate-member layout (-DA_SIZE_POINTER=1; N-2 in quick). '
         '(3) configurations deep / deep-unpacked (h_tree_deep.c): trees TALLER THAN 32 LEVELS - the sparsest AVL shapes FIB(L) (root, FIB(L-1), FIB(L-2): Fib(L+2)-1 nodes) and SPINE(L-1) (a spine of balanced nodes each carrying a FIB tree), '
         'L = 34 in quick (14 930 351 / 14 930 350 nodes), 33, 35 and 36 in thorough (9 227 464 .. 39 088 168 nodes), deep side left/right/alternating/random per level, inserted breadth first through a_avl_insert (every prefix is a valid AVL tree) into one malloc block; '
         'a full O(n) walker judges the built tree, then 400 (quick) / 1500 (thorough) logged operations per tree - remove and re-insert the deepest leaf (all L-1 ancestors shrink, then grow), inserts below the deepest leaves and the end of the balanced spine, removal of the lowest leaves (rotation on almost every level), of the root, of the minimum/maximum and of random elements, duplicate inserts, lookups - '
         'are each judged at once by a region check along the search paths of the touched keys (order, factor == hR-hL, |hR-hL| <= 1, parent links, root, element count from cached subtree sizes; untouched subtrees enter with the heights cached by the last walk), and by the full walker after the first operations, every 200/250 operations and at the end. '
         'distinct_nontrivial = number of distinct canonical (structure + stored factors) trees on which the walker ran after an operation (deep configurations: distinct touched regions - node identities, links and factors along the checked paths).',
    exhaustive={'quick': 'all (shape, operation) pairs for reachable AVL shapes with <= 15 nodes',
                'thorough': 'all (shape, operation) pairs for reachable AVL shapes with <= 20 nodes'},
    require=['search-resident-probe-stored-under-another-key', 'search-with-a-null-context-pointer', 'walker-runs', 'bfs-insert-transitions', 'bfs-remove-transitions', 'dup-insert-returns-resident', 'dup-insert-of-resident-object',
             'insert-returns-null-for-new-key', 'search-agrees-with-model',
             # configurations deep*: a tree above 32 levels was built and judged; inserts / removals 33 or more levels down whose retrace ran all the way to the root were judged
             'deep-build-judged', 'deep-tree-height-above-32', 'deep-full-walks', 'deep-insert-judged', 'deep-remove-judged', 'deep-dup-insert-judged', 'deep-search-judged',
             'deep-insert-33-levels-down-changes-height-of-root', 'deep-remove-33-levels-down-changes-height-of-root'],
    cov_files=['avl.c'], cov_funcs=r'^a_avl_(?!head|tail|next|prev|pre_|post_|tear)', cov_cases=120,
    assumptions=_COMMON + ['removed nodes are free()d immediately, so a stale link is reported by ASan as use-after-free',
                           'shapes above N nodes are sampled by the random histories (up to 4096 nodes) and by the sparse 33-36 level trees of the configurations deep* only'],
    level_text='Bounded-exhaustive over tree shapes (every reachable AVL shape up to N nodes x every possible single operation, executed through the '
               'real code and judged by a structural walker + sorted-array model after every call) plus long random/adversarial histories up to 4096 '
               'nodes. Exhaustive-in-the-small is the right level: rebalancing cases depend only on local shape, and all of them occur below ~12 nodes.',
    level_note='trusted: the harness walker/model; shapes are re-materialised by cloning library-produced structures through the public node fields; '
               'the unpacked node layout is built with -DA_SIZE_POINTER=1 on this 64-bit host (pointers stay 8 bytes wide); '
               'the configurations deep* are built -O2 with UBSan only (ASan does not fit 15-40 million nodes): a removed node is overwritten with 0xEE instead of freed and a stale link is found by the walkers (node not in the model / link outside the block), '
               'between two full walks the subtrees hanging off the checked paths are trusted to be unchanged; heights above 36 levels (> 10^8 nodes) are not reached',
    technique='bounded-exhaustive shape enumeration + random histories in both node layouts, invariant walker and reference model after every call, comparators of arbitrary magnitude, ASan/UBSan; '
              'sparsest-shape (Fibonacci) trees of 33-36 levels built through the library with incremental + full invariant walks (UBSan)',
)
