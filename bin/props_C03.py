_COMMON = [
    'only executions produced by this run are judged (runtime monitoring, not proof)',
    'gcc 12 / x86-64 LP64 little-endian, A_SIZE_POINTER=8; library rebuilt from /repo working tree with -fsanitize=address,undefined',
]
import os as _os, re as _re


def _minalign(hdr):
    """the node alignment the header documents as sufficient for the packed parent word, or None"""
    try:
        t = open(_os.path.join(_os.environ.get('VF_REPO', '/repo'), 'include', 'a', hdr)).read()
    except OSError:
        return []
    m = _re.search(r'must be (\d+)-byte aligned', t)
    return [int(m.group(1))] if m and int(m.group(1)) in (2, 4, 8) else []


SPEC = dict(
    harness=['h_tree.c'], cflags=['-DVF_MODE_ITER'],
    configs=lambda tier: [dict(name='avl'), dict(name='rbt', hflags=['-DVF_TREE_RBT'])] + ([dict(name='avl-unpacked', cflags=['-DA_SIZE_POINTER=1']), dict(name='rbt-unpacked', hflags=['-DVF_TREE_RBT'], cflags=['-DA_SIZE_POINTER=1']),
                          dict(name='avl-clang', libcc='clang'), dict(name='avl-o2', libflavour='san-o2', libdrop=['-fno-strict-aliasing']), dict(name='rbt-clang', hflags=['-DVF_TREE_RBT'], libcc='clang'), dict(name='rbt-o2', hflags=['-DVF_TREE_RBT'], libflavour='san-o2', libdrop=['-fno-strict-aliasing']),
                          dict(name='avl-unpacked-uchar', cflags=['-DA_SIZE_POINTER=1', '-funsigned-char', '-funsigned-bitfields'])] +
                         [dict(name='avl-minalign', cflags=['-fno-sanitize=alignment'], hflags=['-DVF_MINALIGN=%d' % n]) for n in _minalign('avl.h')] +
                         [dict(name='rbt-minalign', cflags=['-fno-sanitize=alignment'], hflags=['-DVF_TREE_RBT', '-DVF_MINALIGN=%d' % n]) for n in _minalign('rbt.h')]),
    parallel_configs=11,
    workers={'quick': 12, 'thorough': 16},
    level='exploration',
    rule='for every tree shape reachable through the library with <= N nodes (AVL N=15 quick/22 thorough; red-black N=12/17) and for random trees up '
         'to 4096 nodes: the six foreach macros (lower-case and upper-case forms) and the fortear macro are run and compared by node address with a recursive traversal over child links; next, prev, '
         'pre_next, pre_prev, post_next, post_prev are called on EVERY node and compared with the successor in the corresponding order (null at '
         'the end); head/tail/post_head/post_tail; tear-down in four variants (complete; `next` reset to null at a random step; interrupted '
         'after k steps; started from EVERY node as the documented explicit starting node) with each node free()d the moment it is handed out, children-before-parents and reachable-set == not-yet-handed-out '
         'checked after every step. A tree whose structure walker fails is skipped (that is C01/C02 territory) and counted. '
         'distinct_nontrivial = distinct canonical shapes on which all protocols were verified.',
    exhaustive={'quick': 'all reachable AVL shapes <= 15 nodes and red-black shapes <= 12 nodes, every starting node',
                'thorough': 'all reachable AVL shapes <= 22 nodes and red-black shapes <= 17 nodes, every starting node'},
    require=['foreach', 'foreach_reverse', 'pre_foreach', 'pre_foreach_reverse', 'post_foreach', 'post_foreach_reverse',
             'next', 'pre_next', 'pre_prev', 'post_next', 'post_prev', 'prev+inverse', 'head-tail',
             'tear-full', 'tear-reset-next', 'tear-interrupted', 'tear-from-explicit-node', 'tear-fortear-macro', 'FOREACH-macro', 'POST_FOREACH_REVERSE-macro', 'tear-steps'],
    cov_files=['avl.c'], cov_funcs=r'^a_avl_(head|tail|next|prev|pre_|post_|tear)', cov_cases=120,
    assumptions=_COMMON + ['handed-out nodes are free()d immediately, so any later read is an ASan use-after-free',
                           'iterator code of avl.c and rbt.c is textually identical but separately compiled; both are executed'],
    level_text='Every traversal protocol and every single-step function is executed from every node of every reachable shape up to N nodes (both '
               'containers) and of random large trees, and compared with an independent recursive reference; tear-down is checked after each step '
               'with free-on-hand-out under ASan. Iterators are pure functions of the shape, so exhaustive-over-shapes is the natural level.',
    level_note='trusted: recursive reference traversal over child links of the same live structure (certified by the C01/C02 walker in the same run)',
    technique='bounded-exhaustive shape enumeration, sequence oracle per node, free-on-hand-out under ASan',
)
