#!/usr/bin/env python3
"""Regenerate /verif/MANIFEST.json from bin/props.py (single source of truth for per-property text)."""
import json, os, sys
HERE = os.path.dirname(os.path.abspath(__file__))
sys.path.insert(0, HERE)
import props as P

ALL = ['C%02d' % i for i in range(1, 21)]
checks = []
for pid in ALL:
    s = P.PROPS.get(pid)
    if not s or s.get('unclaimed') or pid not in P.READY:
        continue
    checks.append(dict(
        property_id=pid,
        quick_cmd='bin/check %s quick' % pid,
        thorough_cmd='bin/check %s thorough' % pid,
        evidence_file='evidence/%s.json' % pid,
        replay_cmd_template='bin/check %s --replay {path}' % pid,
        engine='vf-runtime-monitor',
        level_claimed=dict(category=s['level'], text=s['level_text'], design_ref=s.get('design_ref', 'DESIGN.md section 4 ' + pid)),
        level_note=s['level_note'],
        technique=s['technique'],
    ))
na = [dict(property_id=pid, reason=P.NOT_APPLICABLE.get(pid, 'check not built yet in this session; no claim is made'))
      for pid in ALL if pid not in [c['property_id'] for c in checks]]
m = dict(
    version=1,
    setup_cmd='bin/setup.sh',
    hooks=dict(guard='LIBA_VERIF',
               enable='bin/check compiles /repo/src/*.c and the harness directly with -DLIBA_VERIF (no source hook exists; the define is inert)',
               baseline_off_cmd='bin/baseline.sh',
               source_commits=[],
               add_only=True),
    engines=[dict(name='vf-runtime-monitor', path='bin/check',
                  serves_properties=[c['property_id'] for c in checks],
                  kind_free_text='python driver + C harnesses: rebuilds liba from /repo with ASan+UBSan, runs seeded/enumerated workloads in '
                                 'worker processes, monitors = reference models, invariant walkers, quad-precision/exact oracles, '
                                 'failing-allocator shim; crash journal; known-findings matching; evidence writer')],
    checks=checks,
    notes='Runtime monitoring only (see DESIGN.md). Exit 0 held / 1 VIOLATION / 2 inconclusive. VERIF_SEED seeds every random choice.',
    not_applicable=na,
)
with open(os.path.join(os.path.dirname(HERE), 'MANIFEST.json'), 'w') as f:
    json.dump(m, f, indent=1)
    f.write('\n')
print('MANIFEST.json: %d checks, %d not claimed' % (len(checks), len(na)))
