_COMMON = [
    'only executions produced by this run are judged (runtime monitoring, not proof)',
    'gcc 12 / x86-64 LP64 little-endian; library rebuilt from /repo working tree with -fsanitize=address,undefined',
]
SPEC = dict(
    harness=['h_seq.c'],
    # second configuration: counts/capacities near the top of the index type against a ledger allocator (harness/h_huge.c)
    configs=lambda tier: [dict(name='default'), dict(name='huge', harness=['h_huge.c'], hflags=['-DVF_HUGE=4'], nworkers=2)],
    parallel_configs=2,
    level='exploration',
    memcheck_cases={'thorough': 1600},
    rule='SMALL case class: seeded histories of 30-80 operations on two vectors or two fixed buffers (element sizes 0,1,2,3,4,7,8,12,16,24,33; buffer capacities 0..40; half of the containers live in caller-provided storage via ctor/dtor instead of new/die): '
         'push/pull at both ends, insert, remove, store (with and without copy callback), erase (with and without destructor), setn, setm, setz, sort, '
         'push_fore+sort_fore, push_back+sort_back, push_sort, search, whole-vector swap, at/of/top/end/foreach; indices and counts drawn from explicit '
         'classes {0, mid, num-1, num, num+1, SIZE_MAX, SIZE_MAX-1, (size_t)-num, huge, in-range}; the capacity state (exactly full / spare slot) is '
         'forced before remove, pull_fore, sort_fore and sort_back because each has two implementations selected by it. After EVERY call: element '
         'size, count <= capacity, count and all element bytes vs an array model, returned pointer inside owned storage on an element boundary, '
         'removed element intact and parked past the live range, destructor call counts, refusal of the fixed buffer when full. '
         'The comparators handed to sort/sort_fore/sort_back/push_sort/search return, per case (from seed and case number, logged), -1/0/+1, the key-byte difference, '
         'INT_MIN/INT_MAX or magnitudes varying with the difference (both case classes): only the sign is contractual. '
         'LARGE case class (every 61st case in quick, every 793rd in thorough; 99 / 1514 cases): one vector or buffer (element sizes 1,2,3,4,7,8,12,16,24,33; '
         'vector by new or ctor; buffer growable by setm, or fixed in caller storage / one a_buf_new at full size) is driven from empty through every power of '
         'two 2^k, k = 8..kmax, to 2^kmax+3..62 elements, then to a random size up to 1.5*2^kmax, then back down through the powers of two, then re-used by '
         'setz with another element size and refilled in bulk, then destroyed (ctor vectors: destroyed, constructed again, refilled, destroyed). '
         'kmax: quick 16 for element size <= 4, 15 for <= 8, 14 for <= 16, 13 above (>= 2^18 bytes in every case); thorough 16 for every size, 17 for 1/6 of the sizes <= 2. '
         'It has its own model (array of 32-bit ids; element bytes = big-endian key (id & mask) in the first min(size,4) bytes + a 64-bit mix of the id; 3 key masks give '
         'unique keys or runs of equal keys with different tails) and compares the complete state (element size, count <= capacity, count, every byte) at every count '
         '2^k-3..2^k+2 going up, 2^k+3..2^k-3 going down, and after each operation of the battery run at every station (7 of 30 operations in quick, 14 in thorough, all 30 '
         'at 2^kmax and at the random size; the count is topped up to the station size before each): insert at 0/mid/num-1/num/SIZE_MAX/near the end, insert into the exactly full '
         'container, remove at 0/mid/num-2/near the end/num-1/num/SIZE_MAX in the spare and in the exactly-full state (full state: count raised to the capacity with setn, or setm(num) '
         'for the growable buffer; dropped again afterwards), store of 1,2,255,256,257,4095,4096,4097 or random <700 elements from an exact-size source with and without copy '
         'callback, erase of a middle / front chunk, clipped at the end, with count SIZE_MAX(-1), at idx == num, one element, with the destructor handed exactly the erased '
         'elements in order, setn shrink + regrow, setm, sort (sorted by key + permutation by rank matching) + search (present, absent, smallest, largest key) + push_fore/sort_fore, '
         'push_back/sort_back, push_sort in both capacity states with smallest / largest / present / random key, accessors at 0, num-1, num, mem-1, mem, 255..65537, SIZE_MAX and '
         'negative offsets, swap of the large vector with a small one of another element size (worked on under the other handle, swapped back), refusal of push/insert/store/push_sort by the '
         'exactly full buffer (growable buffer: at every count 2^k-3..2^k+1). Pushes between stations (1/128 push_fore/insert/remove/pull) are checked in O(1) (slot returned, count, capacity). '
         'distinct_nontrivial = distinct (container kind, operation, element-size class, index class(es), capacity state) combinations judged, plus for the large class '
         '(kind, operation, element-size class, floor(log2 count), operation class).',
    exhaustive={},
    require=['huge-vec-setm', 'huge-vec-setn', 'huge-buf-new', 'huge-buf-setm', 'state-compared-with-model', 'returned-pointer-inside-owned-storage', 'removed-element-intact-and-past-live-range',
             'buf-refuses-when-full', 'remove-path-full', 'remove-path-spare', 'sort_fore-path-full', 'sort_fore-path-spare',
             'sort_back-path-full', 'sort_back-path-spare', 'push_sort', 'sorted-insert-keeps-order-and-elements', 'sort-sorted-permutation',
             'search-finds-iff-present', 'erase-out-of-range-reports-obounds', 'erase-destroys-each-erased-element-once', 'setz-rederives-capacity',
             'vec-swap', 'accessors', 'foreach-macros', 'die-destroys-each-element-once', 'ctor-dtor-on-caller-storage', 'pull-from-empty-returns-null',
             'comparator-returns-minus-one-zero-plus-one', 'comparator-returns-key-difference', 'comparator-returns-int-min-int-max', 'comparator-returns-varying-magnitude',
             'large-state-compared-with-model', 'large-pow2-checkpoint', 'large-pow2-checkpoint-down', 'large-count-ge-65536-compared', 'large-bytes-ge-65536-compared',
             'large-returned-pointer-inside-owned-storage', 'large-removed-element-intact-and-past-live-range', 'large-remove-path-full', 'large-remove-path-spare',
             'large-store', 'large-store-ge-256-elements', 'large-erase', 'large-destroys-each-dropped-element-once-in-order', 'large-setn-shrink-regrow', 'large-setm',
             'large-sort-sorted-permutation', 'large-search-finds-iff-present', 'large-sorted-insert-keeps-order-and-elements', 'large-push_sort',
             'large-sort_fore-path-full', 'large-sort_fore-path-spare', 'large-sort_back-path-full', 'large-sort_back-path-spare', 'large-accessors',
             'large-vec-swap-large-with-small', 'large-buf-refuses-when-full', 'large-setz-reuse', 'large-exit-and-reuse', 'large-die-destroys-each-element-once'],
    cov_files=['vec.c', 'buf.c'], cov_cases=600,
    assumptions=_COMMON + [
        'capacities whose byte size overflows size_t (setn/setm/store with counts near SIZE_MAX) are outside the domain',
        'a_buf_setm is only called with mem >= current count (shrinking below the count is not a documented operation)',
        'which slot a removed element is parked in is not prescribed (only: owned, past the live range, bytes intact)',
        'the position of a sorted-insert among equal keys is not prescribed (any position that keeps the order is accepted)',
        'large case class: the capacity of a vector is only required to be >= the count and never to shrink on push/setm/setn (the growth factor is not judged); '
        'a_buf_setm is not applied to a buffer living in caller storage'],
    level_text='Lock-step reference model over seeded operation histories with explicit index classes (incl. SIZE_MAX sentinels) and controlled capacity '
               'state, compared after every call, on a build where every container block is an exact-size malloc block under ASan/UBSan. Histories and '
               'indices are unbounded, so sampling with class coverage is the reachable level; evidence lists how often each (function, path) ran.',
    level_note='trusted: the array model and the id model of the large case class in harness/h_seq.c (semantics taken from vec.h/buf.h documentation); '
               'libc qsort for ranking the two sides in the permutation check of sort; default allocator (malloc/realloc) under ASan',
    technique='seeded operation histories against a lock-step array model, ASan/UBSan red zones on exact-size blocks',
)
