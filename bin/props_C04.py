_COMMON = [
    'only executions produced by this run are judged (runtime monitoring, not proof)',
    'gcc 12 / x86-64 LP64 little-endian; library rebuilt from /repo working tree with -fsanitize=address,undefined',
]
SPEC = dict(
    lsan=True,
    harness=['h_seq.c'],
    # second configuration: counts/capacities near the top of the index type against a ledger allocator (harness/h_huge.c)
    configs=lambda tier: [dict(name='default'), dict(name='huge', harness=['h_huge.c'], hflags=['-DVF_HUGE=4'], nworkers=2),
                          dict(name='arena', harness=['h_arena.c'], hflags=['-DVF_ARENA=4'], nworkers=2),  # operands at exact distances from the storage block (arena allocator through a_alloc)
                          dict(name='clang', libcc='clang', nworkers=4, of=8), dict(name='o2', libflavour='san-o2', libdrop=['-fno-strict-aliasing'], nworkers=4, of=8)],  # library compiled by clang: half of the cases
    parallel_configs=5,
    level='exploration',
    memcheck_cases={'thorough': 1600},
    rule='SMALL case class: seeded histories of 30-80 operations on two vectors or two fixed buffers (element sizes 0,1,2,3,4,7,8,12,16,24,33; buffer capacities 0..40; half of the containers live in caller-provided storage via ctor/dtor instead of new/die): '
         'push/pull at both ends, insert, remove, store (with and without copy callback), erase (with and without destructor), setn, setm, setz, sort, '
         'push_fore+sort_fore, push_back+sort_back, push_sort, search, whole-vector swap, at/of/top/end/foreach; indices and counts drawn from explicit '
         'classes {0, mid, num-1, num, num+1, SIZE_MAX, SIZE_MAX-1, (size_t)-num, huge, in-range}; the capacity state (exactly full / spare slot) is '
         'forced before remove, pull_fore, sort_fore and sort_back because each has two implementations selected by it. After EVERY call: element '
         'size, count <= capacity, count and all element bytes vs an array model, returned pointer inside owned storage on an element boundary, '
         'removed element intact and parked past the live range, destructor call counts, refusal of the fixed buffer when full. '
         'The comparators handed to sort/sort_fore/sort_back/push_sort/search return, per case (from seed and case number, logged), -1/0/+1, the key-byte difference, '
         'INT_MIN/INT_MAX or magnitudes varying with the difference (both case classes): only the sign is contractual. '
         'PUBLIC SURFACE (small case class): every inline function and function-like macro of vec.h and buf.h and the 12 loop macros of a.h they expand to is executed and judged '
         '(counters form/<name>, all required): the typed call macros A_VEC_/A_BUF_ PUSH_BACK, PUSH_FORE, PULL_BACK, PULL_FORE, INSERT, REMOVE, PUSH_SORT, SEARCH, PUSH, PULL and the alias '
         'functions a_vec_push/pull, a_buf_push/pull replace the function form in a random half of the calls (T = struct of the element size or unsigned char const; choices from a '
         'random stream of their own, so the histories are those of the function-only harness); after creation, after every 4th operation and at the end of the history the container '
         'is walked with every accessor (a_*_at_, top_, end_, ptr, A_*_PTR/AT_/AT/OF/TOP_/TOP/END_/END with T and T const, at every live index, every spare slot, index == capacity, SIZE_MAX, '
         'negative offsets, -(count+1)) and every iteration form (a_*_forenum(_reverse), A_*_FORENUM(_REVERSE) with I = unsigned, size_t, int, unsigned short; a_*_foreach(_reverse) with '
         '(T,*), (T const,*), (T,*volatile); A_*_FOREACH(_REVERSE) with T* and T const* variables; the a.h macros applied directly to (storage, count); T = unsigned char[size] for every '
         'size and struct types for sizes 4 and 12) and each must produce exactly the model sequence: addresses storage+k*size, bytes of model element k, loop indices, count; unallocated '
         'vectors (null storage, count 0) must be visited zero times; the last element is pulled and pushed back through the alias forms after each walk; a caller struct embedding '
         'A_BUF_DEF is constructed, filled through the macros, overfilled (refused), pulled and destroyed with the bytes after its payload checked. '
         'LARGE case class (every 61st case in quick, every 793rd in thorough; 99 / 1514 cases): one vector or buffer (element sizes 1,2,3,4,7,8,12,16,24,33; '
         'vector by new or ctor; buffer growable by setm, or fixed in caller storage / one a_buf_new at full size) is driven from empty through every power of '
         'two 2^k, k = 8..kmax, to 2^kmax+3..62 elements, then to a random size up to 1.5*2^kmax, then back down through the powers of two, then re-used by '
         'setz with another element size and refilled in bulk, then destroyed (ctor vectors: destroyed, constructed again, refilled, destroyed). '
         'kmax: quick 16 for element size <= 4, 15 for <= 8, 14 for <= 16, 13 above (>= 2^18 bytes in every case); thorough 16 for every size, 17 for 1/6 of the sizes <= 2. '
         'It has its own model (array of 32-bit ids; element bytes = big-endian key (id & mask) in the first min(size,4) bytes + a 64-bit mix of the id; 3 key masks give '
         'unique keys or runs of equal keys with different tails) and compares the complete state (element size, count <= capacity, count, every byte) at every count '
         '2^k-3..2^k+2 going up, 2^k+3..2^k-3 going down, and after each operation of the battery run at every station (7 of 30 operations in quick, 14 in thorough, all 30 '
         'at 2^kmax and at the random size; the count is topped up to the station size before each): insert at 0/mid/num-1/num/SIZE_MAX/near the end, insert into the exactly full '
         'container, remove at 0/mid/num-2/near the end/num-1/num/SIZE_MAX in the spare and in the exactly-full state (full state: count raised to the capacity with setn, or setm(num) '
         'for the growable buffer; dropped again afterwards), store of 1,2,255,256,257,4095,4096,4097 or random <700 elements from an exact-size source with and without copy '
         'callback, erase of a middle / front chunk, clipped at the end, with count SIZE_MAX(-1), at idx == num, one element, with the destructor handed exactly the erased '
         'elements in order, setn shrink + regrow, setm, sort (sorted by key + permutation by rank matching) + search (present, absent, smallest, largest key) + push_fore/sort_fore, '
         'push_back/sort_back, push_sort in both capacity states with smallest / largest / present / random key, accessors at 0, num-1, num, mem-1, mem, 255..65537, SIZE_MAX and '
         'negative offsets, swap of the large vector with a small one of another element size (worked on under the other handle, swapped back), refusal of push/insert/store/push_sort by the '
         'exactly full buffer (growable buffer: at every count 2^k-3..2^k+1). Pushes between stations (1/128 push_fore/insert/remove/pull) are checked in O(1) (slot returned, count, capacity). '
         'ARENA configuration (harness/h_arena.c, 2000 histories quick / 20000 thorough of 30-60 operations on two vectors or two growable buffers, element sizes 1,2,4,8,12,16,24,33,100): '
         'a_alloc is a bump allocator over one region the harness owns byte by byte (blocks aligned to 16 / 8 / the element size, growth in place or always moving, released and moved-from blocks '
         'poisoned; all drawn per case); before every call that takes a caller operand (push_sort key, search key, store source block, the element the caller stores into the slot returned by '
         'push_back/push_fore/insert) the operand is placed directly behind the CURRENT storage block (distance 0), one element further, directly in front of it, one element further in front, '
         'inside a released former block of the same container, or outside the arena; half of the growing calls start from the exactly-full state, so the block moves while the operand stays behind '
         'the old one. After every call: count <= capacity, capacity x size (+ header) <= bytes granted, count and every byte vs the array model, sorted-insert clauses, returned pointer inside the live '
         'block, operand bytes unchanged, and every byte of the region outside the live blocks (gaps, released blocks, operands) equal to its shadow copy; at the end every block released. '
         'distinct_nontrivial = distinct (container kind, operation, element-size class, index class(es), capacity state) combinations judged, plus for the large class '
         '(kind, operation, element-size class, floor(log2 count), operation class).',
    exhaustive={},
    require=['sort-against-an-adversary-comparator', 'sort-of-the-arrangement-the-adversary-arrived-at', 'arena-state-compared-with-model', 'arena-non-owned-bytes-verified', 'arena-caller-operand-unchanged', 'arena-operand-directly-behind-storage', 'arena-operand-directly-in-front',
             'arena-operand-one-element-behind-storage', 'arena-operand-one-element-in-front', 'arena-operand-in-released-former-block', 'arena-growth-moved-block-with-adjacent-operand',
             'arena-growth-in-place', 'arena-push_sort-exactly-full-key-directly-behind', 'arena-push_sort-moved-block-with-adjacent-key', 'arena-store-growth-with-adjacent-source',
             'arena-push-moved-block-with-adjacent-element-source', 'arena-search-finds-iff-present', 'arena-sorted-insert-keeps-order-and-elements', 'arena-buf-refuses-when-full',
             'arena-returned-pointer-inside-live-block',
             'form/a_iterate', 'form/A_ITERATE', 'form/a_iterate_reverse', 'form/A_ITERATE_REVERSE', 'sorts-and-search-on-empty-container', 'huge-vec-setm', 'huge-vec-setn', 'huge-buf-new', 'huge-buf-setm', 'state-compared-with-model', 'returned-pointer-inside-owned-storage', 'removed-element-intact-and-past-live-range',
             'buf-refuses-when-full', 'remove-path-full', 'remove-path-spare', 'sort_fore-path-full', 'sort_fore-path-spare',
             'sort_back-path-full', 'sort_back-path-spare', 'push_sort', 'sorted-insert-keeps-order-and-elements', 'sort-sorted-permutation',
             'search-finds-iff-present', 'erase-out-of-range-reports-obounds', 'erase-destroys-each-erased-element-once', 'setz-rederives-capacity',
             'vec-swap', 'accessors', 'foreach-macros', 'die-destroys-each-element-once', 'ctor-dtor-on-caller-storage', 'pull-from-empty-returns-null',
             'comparator-returns-minus-one-zero-plus-one', 'comparator-returns-key-difference', 'comparator-returns-int-min-int-max', 'comparator-returns-varying-magnitude',
             'large-state-compared-with-model', 'large-pow2-checkpoint', 'large-pow2-checkpoint-down', 'large-count-ge-65536-compared', 'large-bytes-ge-65536-compared',
             'large-returned-pointer-inside-owned-storage', 'large-removed-element-intact-and-past-live-range', 'large-remove-path-full', 'large-remove-path-spare',
             'large-store', 'large-store-ge-256-elements', 'large-erase', 'large-destroys-each-dropped-element-once-in-order', 'large-setn-shrink-regrow', 'large-setm',
             'large-sort-sorted-permutation', 'large-search-finds-iff-present', 'large-sorted-insert-keeps-order-and-elements', 'large-push_sort',
             'large-sort_fore-path-full', 'large-sort_fore-path-spare', 'large-sort_back-path-full', 'large-sort_back-path-spare', 'large-accessors',
             'large-vec-swap-large-with-small', 'large-buf-refuses-when-full', 'large-setz-reuse', 'large-exit-and-reuse', 'large-die-destroys-each-element-once',
             # wide-element case class (element widths 100 .. 70001 bytes, harness/h_seq.c WIDE-ELEMENT; seeded change C04-I)
             'wide-case', 'wide-case-wider-than-1024', 'wide-case-wider-than-65536', 'wide-state-compared-with-model', 'wide-returned-pointer-inside-owned-storage',
             'wide-removed-element-intact-and-past-live-range', 'wide-remove-path-full', 'wide-remove-path-spare', 'wide-remove-path-full-element-ge-4096-bytes',
             'wide-push-insert', 'wide-store', 'wide-erase', 'wide-vec-swap', 'wide-buf-refuses-when-full', 'wide-destroys-each-dropped-element-once-in-order',
             # public surface of vec.h / buf.h and the a.h loop macros: every form must have been executed and judged (harness/h_seq.c, PUBLIC SURFACE)
             'surface-walk', 'surface-walk-null-storage'] + ['form/' + f for f in (
                 'a_vec_ptr a_vec_at_ a_vec_top_ a_vec_end_ a_vec_push a_vec_pull '
                 'A_VEC_PTR A_VEC_AT_ A_VEC_AT A_VEC_OF A_VEC_TOP_ A_VEC_TOP A_VEC_END_ A_VEC_END '
                 'A_VEC_PUSH_SORT A_VEC_SEARCH A_VEC_INSERT A_VEC_REMOVE A_VEC_PUSH_FORE A_VEC_PUSH_BACK A_VEC_PULL_FORE A_VEC_PULL_BACK A_VEC_PUSH A_VEC_PULL '
                 'a_vec_forenum A_VEC_FORENUM a_vec_forenum_reverse A_VEC_FORENUM_REVERSE a_vec_foreach A_VEC_FOREACH a_vec_foreach_reverse A_VEC_FOREACH_REVERSE '
                 'a_buf_ A_BUF_DEF a_buf_ptr a_buf_at_ a_buf_top_ a_buf_push a_buf_pull '
                 'A_BUF_PTR A_BUF_AT_ A_BUF_AT A_BUF_OF A_BUF_TOP_ A_BUF_TOP A_BUF_END '
                 'A_BUF_PUSH_SORT A_BUF_SEARCH A_BUF_INSERT A_BUF_REMOVE A_BUF_PUSH_FORE A_BUF_PUSH_BACK A_BUF_PULL_FORE A_BUF_PULL_BACK A_BUF_PUSH A_BUF_PULL '
                 'a_buf_forenum A_BUF_FORENUM a_buf_forenum_reverse A_BUF_FORENUM_REVERSE a_buf_foreach A_BUF_FOREACH a_buf_foreach_reverse A_BUF_FOREACH_REVERSE '
                 'a_forenum A_FORENUM a_forenum_reverse A_FORENUM_REVERSE a_foreach A_FOREACH a_forsafe A_FORSAFE '
                 'a_foreach_reverse A_FOREACH_REVERSE a_forsafe_reverse A_FORSAFE_REVERSE').split()],
    cov_files=['vec.c', 'buf.c'], cov_cases=600,
    assumptions=_COMMON + [
        'capacities whose byte size overflows size_t (setn/setm/store with counts near SIZE_MAX) are outside the domain',
        'a_buf_setm is only called with mem >= current count (shrinking below the count is not a documented operation)',
        'which slot a removed element is parked in is not prescribed (only: owned, past the live range, bytes intact)',
        'the position of a sorted-insert among equal keys is not prescribed (any position that keeps the order is accepted)',
        'arena configuration: caller operands never overlap live storage; the library may write anywhere inside its own live blocks (spare capacity included) and nowhere else; '
        'blocks obtained through a_alloc hold arbitrary bytes (0xA5) and may be aligned to the element size only when no header structure is allocated',
        'large case class: the capacity of a vector is only required to be >= the count and never to shrink on push/setm/setn (the growth factor is not judged); '
        'a_buf_setm is not applied to a buffer living in caller storage'],
    level_text='Lock-step reference model over seeded operation histories with explicit index classes (incl. SIZE_MAX sentinels) and controlled capacity '
               'state, compared after every call, on a build where every container block is an exact-size malloc block under ASan/UBSan. Histories and '
               'indices are unbounded, so sampling with class coverage is the reachable level; evidence lists how often each (function, path) ran.',
    level_note='trusted: the array model and the id model of the large case class in harness/h_seq.c (semantics taken from vec.h/buf.h documentation); '
               'libc qsort for ranking the two sides in the permutation check of sort; default allocator (malloc/realloc) under ASan',
    technique='seeded operation histories (small, and large through 2^16..2^20 elements) against lock-step models, every accessor / call / loop macro form judged, ledger allocator with a capacity-vs-granted-bytes invariant and CPU-time watchdog for counts near SIZE_MAX, arena allocator with caller operands at exact distances from the storage block and a shadow copy of every non-owned byte, ASan/UBSan/LeakSanitizer on exact-size blocks',
)
