_COMMON = [
    'only executions produced by this run are judged (runtime monitoring, not proof)',
    'gcc 12 / x86-64 LP64 little-endian; library rebuilt from /repo working tree with -fsanitize=address,undefined',
]
SPEC = dict(
    harness=['h_seq.c'],
    level='exploration',
    memcheck_cases={'thorough': 1600},
    rule='seeded histories of 30-80 operations on two vectors or two fixed buffers (element sizes 0,1,2,3,4,7,8,12,16,24,33; buffer capacities 0..40; half of the containers live in caller-provided storage via ctor/dtor instead of new/die): '
         'push/pull at both ends, insert, remove, store (with and without copy callback), erase (with and without destructor), setn, setm, setz, sort, '
         'push_fore+sort_fore, push_back+sort_back, push_sort, search, whole-vector swap, at/of/top/end/foreach; indices and counts drawn from explicit '
         'classes {0, mid, num-1, num, num+1, SIZE_MAX, SIZE_MAX-1, (size_t)-num, huge, in-range}; the capacity state (exactly full / spare slot) is '
         'forced before remove, pull_fore, sort_fore and sort_back because each has two implementations selected by it. After EVERY call: element '
         'size, count <= capacity, count and all element bytes vs an array model, returned pointer inside owned storage on an element boundary, '
         'removed element intact and parked past the live range, destructor call counts, refusal of the fixed buffer when full. '
         'distinct_nontrivial = distinct (container kind, operation, element-size class, index class(es), capacity state) combinations judged.',
    exhaustive={},
    require=['state-compared-with-model', 'returned-pointer-inside-owned-storage', 'removed-element-intact-and-past-live-range',
             'buf-refuses-when-full', 'remove-path-full', 'remove-path-spare', 'sort_fore-path-full', 'sort_fore-path-spare',
             'sort_back-path-full', 'sort_back-path-spare', 'push_sort', 'sorted-insert-keeps-order-and-elements', 'sort-sorted-permutation',
             'search-finds-iff-present', 'erase-out-of-range-reports-obounds', 'erase-destroys-each-erased-element-once', 'setz-rederives-capacity',
             'vec-swap', 'accessors', 'foreach-macros', 'die-destroys-each-element-once', 'ctor-dtor-on-caller-storage', 'pull-from-empty-returns-null'],
    cov_files=['vec.c', 'buf.c'], cov_cases=600,
    assumptions=_COMMON + [
        'capacities whose byte size overflows size_t (setn/setm/store with counts near SIZE_MAX) are outside the domain',
        'a_buf_setm is only called with mem >= current count (shrinking below the count is not a documented operation)',
        'which slot a removed element is parked in is not prescribed (only: owned, past the live range, bytes intact)',
        'the position of a sorted-insert among equal keys is not prescribed (any position that keeps the order is accepted)'],
    level_text='Lock-step reference model over seeded operation histories with explicit index classes (incl. SIZE_MAX sentinels) and controlled capacity '
               'state, compared after every call, on a build where every container block is an exact-size malloc block under ASan/UBSan. Histories and '
               'indices are unbounded, so sampling with class coverage is the reachable level; evidence lists how often each (function, path) ran.',
    level_note='trusted: the array model in harness/h_seq.c (semantics taken from vec.h/buf.h documentation); default allocator (malloc/realloc) under ASan',
    technique='seeded operation histories against a lock-step array model, ASan/UBSan red zones on exact-size blocks',
)
