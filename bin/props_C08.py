"""C08 - LU, LDL^T and Cholesky factorizations reconstruct, solve and fail correctly (harness/h_linalg_fact.c)."""

_FAM = ['plu', 'ldl', 'llt']

# counters of the type-generic companion (harness/h_linalg_fact_w.c), summed over the f32 and f80 configurations
_W = (['w-cases-f32', 'w-cases-f80'] +
      ['w-' + f + s for f in _FAM for s in ('-exactly-singular-reports-failure', '-exactly-factorable-reports-success', '-exact-factors',
                                            '-reconstruction-bound', '-extraction-equals-stored', '_solve-exact', '_solve-residual-bound',
                                            '_inv-exact', '_inv_-exact', '_inv-column-bound', '_inv_-column-bound', '_det-exact',
                                            '_det-vs-pivot-product', '_lndet-vs-log-pivots')] +
      ['w-plu-shape', 'w-plu_sgndet-vs-pivot-signs', 'w-ldl_sgndet-vs-pivot-signs'] +
      # the sweeps on their own, every documented argument form (see _FORMS below)
      ['w-' + f + '-sweeps-on-compact' for f in _FAM] +
      ['w-plu-sweeps-on-extracted-LU', 'w-ldl-sweeps-on-extracted-LD', 'w-llt-sweeps-on-extracted-L',
       'w-plu-sweeps-on-compact-rest-huge', 'w-plu-sweeps-on-compact-rest-nan', 'w-llt-sweeps-on-compact-upper-huge',
       'w-llt-sweeps-on-compact-upper-nan', 'w-plu-sweeps-on-user-built-factor', 'w-llt-sweeps-on-user-built-factor'])

# full harness: the triangular sweeps on every argument form the header documents for them (check_forms / check_user_built)
_FORMS = ['plu-sweeps-on-extracted-LU', 'plu-sweeps-on-compact-rest-1e300', 'plu-sweeps-on-compact-rest-nan',
          'llt-sweeps-on-extracted-L', 'llt-sweeps-on-compact-upper-1e300', 'llt-sweeps-on-compact-upper-nan',
          'ldl-sweeps-on-extracted-LD', 'sweeps-on-user-built-factor', 'user-built-ldl-storage-holds-L0-D0',
          'plu-forms-diff-to-compact', 'ldl-forms-diff-to-compact', 'llt-forms-diff-to-compact']

# the caller's rounding mode x the ISA as hidden inputs (seeded change C08-K: LU multipliers by reciprocal + FMA correction when FP_FAST_FMA is
# defined, bit-identical to the division in round-to-nearest only): the clause groups that need no rounding argument - exact-failure classes,
# exactly factorable classes judged with ==, shape, extraction - under FE_DOWNWARD / FE_TOWARDZERO / FE_UPWARD / FE_TONEAREST (-DVF_FENV_ROTATE,
# see "configurations fenv-exact" in both harnesses), in the default ISA build and, where the CPU has it, in the -mfma build (FP_FAST_FMA and
# FP_FAST_FMAF become defined; FP_FAST_FMAL never is on x86-64 - the x87 unit has no fused multiply-add -, so there is no long double -mfma variant)
try:
    _HAS_FMA = ' fma ' in open('/proc/cpuinfo').read()
except OSError:
    _HAS_FMA = False
_FX = ['-DVF_FENV_ROTATE']
_FENV = ([dict(name='fenv-exact', hflags=_FX, nworkers=4),
          dict(name='fenv-exact-f32', real=4, harness=['h_linalg_fact_w.c'], hflags=_FX, nworkers=2),
          dict(name='fenv-exact-f80', real=16, harness=['h_linalg_fact_w.c'], hflags=_FX, nworkers=2)] +
         ([dict(name='fenv-exact-fma', cflags=['-mfma'], hflags=_FX, nworkers=4),
           dict(name='fenv-exact-f32-fma', real=4, harness=['h_linalg_fact_w.c'], cflags=['-mfma'], hflags=_FX, nworkers=2)] if _HAS_FMA else []))
_FENV_REQ = ['fenv-exact-failure-class-judged', 'fenv-exact-factorization-judged', 'fenv-shape-only-class-judged',
             'w-fenv-exact-failure-class-judged', 'w-fenv-exact-factorization-judged', 'w-fenv-shape-only-kind-judged',
             'fenv-library-call-watched-for-invalid-and-divbyzero'] + \
            [c + m for c in ('fenv-exact-failure-judged-', 'fenv-exact-factorization-judged-') for m in ('FE_DOWNWARD', 'FE_TOWARDZERO', 'FE_UPWARD', 'FE_TONEAREST')]

SPEC = dict(
    harness=['h_linalg_fact.c'],
    # the default (double) build runs the full harness; the other two real widths run a compact type-generic companion
    configs=lambda tier: [dict(name='f64'), dict(name='f64-clang', libcc='clang', nworkers=4, of=8), dict(name='f64-o2', libflavour='san-o2', libdrop=['-fno-strict-aliasing'], nworkers=4, of=8), dict(name='f32', real=4, harness=['h_linalg_fact_w.c']), dict(name='f80', real=16, harness=['h_linalg_fact_w.c'])] + _FENV,
    parallel_configs=5 + len(_FENV),
    level='exploration',
    rule='one case = one matrix of one structure class run through one family (a_real_plu / a_real_ldl / a_real_llt); every library call '
         'in it is one evaluation. On reported success: p is a permutation with parity == sign, every stored multiplier |l| <= 1, the '
         'Cholesky diagonal is > 0, and every entry of PA-LU / A-LDL^T / A-LL^T (accumulated in __float128) is within c*gamma_n*(|L||U|) '
         '(resp. gamma_n |L||D||L^T|, gamma_{n+1} |L||L^T|), gamma_k = k*u/(1-k*u), u = 2^-53, c = 4; two right-hand sides (random, '
         'integer) go through apply, lower, upper (plain and strided on one column of an n x n block), solve, and every column of inv and '
         'inv_ is judged by |b-Ax| <= c*gamma_3n*(P^T|L||U|)|x|; det/lndet/sgndet are compared with the quad product / log-sum / sign of '
         'the stored pivots and with one another; P, P_, L, U, D extraction is compared bitwise with the stored factors; every array the '
         'library writes has 2x8 guard cells inside its allocation, every read-only argument is an exact-size malloc block (ASan) and is '
         'compared with a snapshot after the call. Exact-failure classes (pivot exactly 0 / <= 0 in floating point by construction) must '
         'report failure, exactly factorable classes must report success; other inputs are judged only when success is reported. '
         'ARGUMENT FORMS: include/a/linalg.h documents the argument of plu_lower(_), plu_upper(_), llt_lower(_), llt_upper(_) as "the lower / upper '
         'triangular matrix L / U, stored in row-major order" and the argument of every other routine (all ldl routines included) as "the matrix '
         'containing L and U / L and D / L form in a compact form after ... decomposition". The latter always get the storage the factorization left, '
         'unmodified. The four sweep pairs are in one judged case in three (in place of the second right-hand side of the compact pipeline) also driven, '
         'plain and strided, with (a) the matrices a_real_plu_L / a_real_plu_U / a_real_llt_L deliver (exact-size blocks, zeros on the other side) and '
         '(b) copies of the storage in which every entry that is not part of the argument - strictly upper triangle (llt), diagonal and strictly upper '
         'triangle (plu_lower: unit diagonal implied), strictly lower triangle (plu_upper) - is +-1e300 in one variant and NaN in another; every sweep is '
         'judged by the same gamma_{n+1}|T||x| oracle and the chain apply -> lower -> upper by the residual oracle of <fam>_solve; a non-finite result is '
         'accepted only where the same sweep on the storage is non-finite too. LDL^T: the unit lower L and d delivered by a_real_ldl_L / a_real_ldl_D go '
         'through the generic sweeps a_real_plu_lower, y/d (harness), a_real_llt_upper (documented for any lower triangular matrix; the operations of '
         'ldl_lower + ldl_upper in the same order), same oracles. NOT judged, only recorded (counters "...(not judged)", *-forms-diff maxima): the '
         'difference of every such result to the result on the storage; the ldl routines on a storage whose strictly upper triangle is poisoned, '
         'ldl_lower and llt_solve on the extracted L (the header does not say what a_real_ldl leaves above the diagonal, and documents llt_solve for the '
         'storage). One case in four also builds integer triangular factors itself (|t| <= 3, diagonal 1 / 1,2,4 / +-1,+-2,+-4, zeros on the other '
         'side, rhs = T*x0, |x0| <= 4: every intermediate of any summation order is an exactly representable integer, divisions are by powers of two) '
         'and requires plu_lower(_), plu_upper(_), llt_lower(_), llt_upper(_) to return x0 with ==; for LDL^T the integer L0 D0 L0^T is factored by the '
         'library and ldl_lower(_) / ldl_upper(_) are judged the same way on that storage when it holds exactly L0, D0. '
         'Extreme-scaling ("xscale") classes: PLU D1*B*D2 with rows and/or columns of a well-conditioned dense / small-integer B scaled by '
         '2^e, e spread over +-960 (rows or columns) or +-480 (both), a global scaling that puts the largest entry next to DBL_MAX or the '
         'smallest next to DBL_MIN, huge rows over tiny columns whose multipliers underflow to exactly 0 by construction, and exact '
         'permutation / diagonal / triangular matrices with entries anywhere in the normal range (these and the diagonal LDL/LLT ones must '
         'succeed); LDL/LLT D*B*D with B SPD (B^T B + dI, integer L0 L0^T, or diagonally dominant with off-diagonals down to the bottom of '
         'the normal range) resp. symmetric indefinite, |e| <= 480, and the same global scalings. Every input entry is finite and '
         'normal-or-zero; half of the right-hand sides are scaled by 2^+-1000 as well. On these classes a failure report is accepted, a '
         'non-finite factor / solution / inverse is counted (<fam>-xscale-overflow-skipped) and skipped, and on success with finite results '
         'the same shape clauses and bounds are judged. Every bound carries the a-priori underflow term (eta = 2^-1074 absolute error per '
         'product and per quotient, derivation in the harness header): reconstruction entry (r,c) + eta*(min(r,c) + [r>c]|u_cc|) for PLU, '
         '+ eta*(sum_{i<c}(|d_i|+1) + [r>c]|d_c|) for LDL, + eta*(c + [r>c]|l_cc|) for LLT; sweeps + eta*r (unit lower), '
         '+ eta*(r+|l_rr|), + eta*(n-1-r+|pivot_r|), + eta*|d_r|(n-r) (D L^T); solve / inverse column row r '
         '+ sum_c E(r,c)|x_c| + sum_{k<=r}|L_rk| e2_k + e1_r; all times c = 4. '
         'distinct_nontrivial counts distinct (family, n, structure class, success|failure, pivoting-pattern signature) cells in which a '
         'factorization was judged; signature = bit mask of the elimination steps that exchanged rows (PLU, n<=12; number of exchanges '
         'for n>12), bit mask of the negative pivots (LDL, n<=12; their number for n>12), none for LLT - NOT the number of matrices. '
         'Configurations f32 / f80 (a_real = float / long double, counters w-*, keys ending /f32 or /f80): the companion harness judges, with '
         'every array an exact-size 0xA5-filled malloc block, (exact) A = Q*L0*U0 with multipliers k/4 and integer U0, integer L0*D0*L0^T and '
         'L0*L0^T: stored factors, p, sign, solve of b = A*x0, integer determinant compared with ==, and A*X == I exactly for inv and inv_ '
         'when n <= 4; the sweeps on their own (plain and strided chain apply -> lower -> upper == x0 resp. within the solve bound) on the storage, on the '
         'extracted L / U (ldl: extracted L, d through plu_lower, /d, llt_upper), on the storage with the entries outside the argument set to '
         '+-2^(MAX_EXP-8) / NaN (plu, llt) and on the generator\'s own L0 / U0 with zeros on the other side (plu, llt, exact kinds); (rounded) random full-mantissa matrices against the same componentwise bounds with u = A_REAL_EPSILON/2, c = 4, '
         'lndet within c*(n+2)*eps*sum|log|pivot||; (exactly singular) zeroed u_kk / d_k, lowered Cholesky pivot, zero column, 2^k-multiple '
         'rows, zero matrix must fail; (full range) permutation / diagonal / row-scaled triangular matrices with pivots 2^k, '
         'A_REAL_MIN_EXP-1 <= k <= A_REAL_MAX_EXP-3, must succeed with factors == input, solve == x0, exact inverse; P, P_, L, U, D == stored. '
         'Configurations fenv-exact (double, full harness), fenv-exact-f32 / -f80 (companion) and, where the CPU has FMA, fenv-exact-fma / fenv-exact-f32-fma '
         '(library and harness with -mfma: FP_FAST_FMA / FP_FAST_FMAF defined): every case runs under one of FE_DOWNWARD / FE_TOWARDZERO / FE_UPWARD / FE_TONEAREST '
         '(a function of seed and case number) and ONLY the clauses that need no rounding argument are judged: the exact-failure classes must report failure '
         '(zero column / row / matrix / leading entry, duplicated and 2^k-multiple rows, integer L0 D0 L0^T with a zero in D0, integer L0 L0^T with a lowered pivot - '
         'the vanishing of the pivot never depends on the rounding direction; seeded change C08-K is visible through the duplicated rows with a pivot that is not a power of two); the classes whose every intermediate is exactly representable must succeed with '
         'stored factors == the exact factors (permutation / diagonal / upper triangular incl. xscale-exact: storage == row-permuted input; integer L0 D0 L0^T; '
         'integer L0 L0^T; and, this configuration only, A = Q L0 U0 with multipliers k/4 and integer U0, p == the forced pivot order), b = A x0 with integer x0 '
         'through lower / upper (plain, strided) and solve == x0, det == the integer determinant while <= 2^53, inv / inv_ == the exact inverse of a +-2^k '
         'permutation matrix; on every other class without extreme scaling only p a permutation, sign == parity, |l| <= 1 (FE_TONEAREST / FE_TOWARDZERO only), pivots non-zero, Cholesky diagonal > 0; '
         'everywhere extraction == stored, plu_apply, sgndet, guard cells, read-only arguments, the integer user-built sweeps. Every residual / determinant / lndet '
         'bound is NOT judged there (counters fenv-skipped-inexact-clause / -class, w-fenv-skipped-inexact-clause); companion: kinds EXACT, FAIL, RANGE in full '
         'except lndet and the n > 4 inverse bound, kind ROUNDED shape + extraction + sgndet only.'
         ' In the same configurations the sticky flags FE_INVALID and FE_DIVBYZERO are cleared before and read after every library factorization / sweep / solve / inverse / '
         'determinant call on the must-fail, exactly factorable and must-succeed classes (counter fenv-library-call-watched-for-invalid-and-divbyzero); a raised flag is RECORDED, not '
         'judged (a first version unmasked the exceptions and treated a SIGFPE inside the library as a violation: that asks more than C08 states - non-stop arithmetic is the ISO C '
         'default, trapping a glibc extension of the caller; seeded change C08-M, sqrt of a not yet validated pivot, is therefore outside the property).'
         ' DIVISORS OF EVERY ==-JUDGED FACTOR / SOLUTION / DETERMINANT / INVERSE CLAUSE ARE POWERS OF TWO (all configurations): the property does not fix how a quotient is '
         'formed, and a * fl(1/u) is the exact quotient only when 1/u is representable. So the integer classes (also the must-fail ones built on them) use D0 in +-{1,2,4}, '
         'diag(L0) in {1,2,4}, u_ii in +-{1,2,4} (companion RANGE kind: diagonal +-2^k), products are of integers / dyadics (exact in either association). The duplicated / '
         '2^k-multiple rows are named by the property and must fail whatever the pivot (an implementation with fl(a*fl(1/a)) != 1 breaks that sentence); two such cases in three '
         'additionally meet at a pivot +-2^K (rows 0 before column j, +-2^K there, 2^K > 4*2^j*max|A|). A library that forms every quotient of a_real_plu / ldl / llt and of all '
         'sweeps as a * fl(1/u) is flagged in the default configurations by the duplicated-rows must-fail clause only (checked on a scratch copy).',
    exhaustive={'quick': None, 'thorough': None},
    require=_W + _FORMS + _FENV_REQ + ['guard-cells-intact', 'const-input-intact',
             'exact-zero-pivot-reports-failure', 'exactly-factorable-reports-success',
             'plu-failure-reported', 'ldl-failure-reported', 'llt-failure-reported',
             'plu-p-is-permutation', 'plu-sign-equals-parity', 'plu-multipliers-le-1', 'plu-pivots-nonzero',
             'plu-exchange-at-every-step', 'plu-exchange-at-last-step-only', 'plu-no-exchange',
             'ldl-pivots-nonzero', 'ldl-mixed-sign-pivots', 'llt-diagonal-positive',
             'plu-reconstruction-bound', 'ldl-reconstruction-bound', 'llt-reconstruction-bound',
             'plu_apply-equals-b[p[i]]', 'plu_P-is-permutation-matrix-of-p', 'plu_P_-is-transpose-of-P',
             'plu_L-reproduces-unit-lower', 'plu_U-reproduces-upper', 'ldl_L-reproduces-unit-lower', 'ldl_D-reproduces-diagonal',
             'llt_L-reproduces-lower', 'spd-det-three-methods-agree',
             'plu-xscale-multiplier-below-DBL_MIN', 'plu-xscale-multipliers-flush-to-zero-by-construction'] +
            [f + s for f in _FAM for s in ('-xscale-reconstruction-bound', '-xscale-solve-residual-bound',
                                           '-xscale-inv-column-residual-bound', '-xscale-overflow-skipped',
                                           '-xscale-product-underflow-observed')] +
            [f + s for f in _FAM for s in ('_lower-residual-bound', '_upper-residual-bound', '_solve-residual-bound',
                                           '_lower_-residual-bound', '_upper_-residual-bound',
                                           '_lower_-other-columns-untouched', '_upper_-other-columns-untouched',
                                           '_inv-column-residual-bound', '_inv_-column-residual-bound', '_inv-vs-inv_-agreement',
                                           '_det-equals-product-of-pivots', '_lndet-equals-sum-log-pivots',
                                           '_lndet-agrees-with-log-abs-det', '_det-equals-quad-determinant-of-input')] +
            ['plu_sgndet-equals-sign-of-pivot-product', 'ldl_sgndet-equals-sign-of-pivot-product',
             'plu_sgndet-agrees-with-det', 'ldl_sgndet-agrees-with-det', 'plu_sgndet-zero-pivot-gives-0',
             'ldl_sgndet-zero-pivot-gives-0', 'llt_det-positive'],
    cov_files=['linalg_plu.c', 'linalg_ldl.c', 'linalg_llt.c'],
    cov_cases=600,
    cov_funcs=r'^a_real_(plu|ldl|llt)',
    workers={'quick': 18, 'thorough': 36},  # three configurations run side by side: 6 / 12 workers each (the companions finish within a second)
    assumptions=[
        'only executions produced by this run are judged (runtime monitoring, not proof)',
        'gcc 12 / x86-64 LP64 little-endian, A_SIZE_POINTER=8; library rebuilt from /repo working tree with -fsanitize=address,undefined',
        'full harness (configuration f64): a_real = double (A_SIZE_REAL=8), round-to-nearest, no FMA contraction. The float (A_SIZE_REAL=4, f32) and '
        'x87 long double (A_SIZE_REAL=16, f80) builds are executed by the compact type-generic companion harness/h_linalg_fact_w.c only: '
        'n <= 12, four kinds of input per family (exactly factorable dyadic / integer, full-mantissa random with scaling <= 2^+-12, exactly '
        'singular, no-arithmetic matrices whose pivots are 2^k anywhere in the normal range of the working type); the extreme-scaling classes '
        'with underflowing products, the per-sweep residual oracle of the plain / strided triangular sweeps (their chain is judged), guard cells inside the allocations and input '
        'snapshots of the full harness are not repeated there (exact-size 0xA5-filled blocks under ASan are)',
        'underflow is modelled by the standard gradual-underflow term (absolute error <= 2^-1074 per product / quotient, sums exact), which '
        'is part of every bound; an overflow (non-finite factor or solution) is accepted only on the xscale classes and on plain LDL^T of '
        'indefinite matrices, where it is counted and skipped; n <= 48; the determinant product is judged only while every partial '
        'product stays within 2^+-440',
        'LDL and LLT inputs are exactly symmetric; operands do not alias except where the header says in/out',
        'argument forms: a "lower (upper) triangular matrix" argument is taken to consist of the entries on and below (above) the diagonal only, with '
        'the unit diagonal of the LU factor L implied (a_real_plu_solve itself passes the storage, whose diagonal holds U); routines documented for the '
        'compact storage are never given anything else in a judged clause',
        'a_real_plu_P_ is undocumented; it is taken to be the transpose (inverse permutation matrix) of a_real_plu_P',
        'configurations fenv-exact*: the caller\'s rounding mode is taken to be part of the execution environment for the clauses that state no tolerance '
        '(failure on an exactly vanishing pivot, shape of the factors) and for inputs on which no operation of the pinned algorithms rounds (an IEEE operation '
        'whose exact result is representable returns it in every mode); the rounding-error bounds are stated for round-to-nearest and are not judged under the '
        'other three modes. The == clauses on exact factors / solutions hold for division and for multiplication by the correctly rounded reciprocal alike '
        '(every divisor a power of two, every product and partial sum an exactly representable integer or dyadic). Harness and library are compiled without '
        '-frounding-math, as a user would; -ffp-contract=off also in the -mfma build, so only explicit fma calls and FP_FAST_FMA* arms differ there. '
        'No long double -mfma configuration: FP_FAST_FMAL is never defined on x86-64',
    ],
    level_text='The refuting events are numerical (a factor entry, solution or inverse column outside the standard componentwise backward-error '
               'bound) and structural (invalid permutation, wrong parity, multiplier > 1, non-positive diagonal, success on an exactly '
               'vanishing pivot, writes outside the arrays), all of them visible from the outputs of one execution; there is no finite input '
               'space to enumerate. So the matrices are drawn from structure classes chosen to drive every branch and index pattern (n = 1..12 '
               'over all classes repeatedly, random n up to 48: random dense, small integers, rows/columns scaled by 2^+-40 and - with '
               'underflowing multipliers, products and solution components and overflowing updates - by 2^+-960, Hilbert-like, '
               'nearly dependent rows, an exchange at every step / at the last step only, permutation, triangular and diagonal matrices, '
               'SPD as B^T B + delta I and integer L0 L0^T, symmetric indefinite, integer L0 D0 L0^T, tridiagonal, plus the exact-failure '
               'classes) and each execution is judged against bounds that hold for every correctly rounded implementation irrespective of '
               'conditioning, with residuals in __float128 so that oracle rounding is 2^-60 of the tolerance. The bounds have >= 4x head-room over '
               'the worst ratio observed on the real code while an indexing or sign error produces O(1) relative residuals.',
    level_note='trusted: libquadmath arithmetic/logq and the harness residual loops; a wrong result that still satisfies the componentwise '
               'bound with c = 4 (a relative perturbation of a few n*u of the factors) is not observed; plain LDL^T results on indefinite matrices are '
               'judged only by the bound in terms of the computed factors (no stability demanded); n > 48 not executed '
               '(float / long double builds: n > 12 and badly scaled non-trivial matrices not executed; a width-specific defect that only shows '
               'with underflowing multipliers or for n > 12 is not observed)',
    technique='structured/random matrix workload, quad-precision componentwise backward-error oracle, exact-by-construction failure classes, '
              'guard cells + exact-size blocks under ASan+UBSan; exact-failure / exactly-factorable / shape clauses under the four rounding modes, '
              'default ISA and -mfma (configurations fenv-exact*)',
)
