"""Build configurations derived from the preprocessor structure of the anchored sources (used by props_C10.py and props_C11.py)."""
import os, re, itertools


def arms(all_have, files, limit=24):
    """wherever a conditional that mentions one A_HAVE_* switch is nested in (or combined with) a conditional on another, every assignment of
    the switches involved is built - with all other switches on, and with all others off - so that every arm of every such conditional is
    compiled AND executed (seeded change C10-J: inside the cpow fallback, an arm for 'cexp present' containing an arm for 'clog absent').
    Returns configuration dicts (name, real=8, have); none on the pinned tree, where no conditional on one switch encloses another."""
    repo = os.environ.get('VF_REPO', '/repo')
    groups = set()
    for f in files:
        try:
            lines = open(os.path.join(repo, f), errors='replace').read().replace('\\\n', ' ').splitlines()
        except OSError:
            continue
        stack = []
        for ln in lines:
            m = re.match(r'\s*#\s*(if|ifdef|ifndef|elif|else|endif)\b(.*)', ln)
            if not m:
                continue
            d, rest = m.group(1), m.group(2)
            names = set(re.findall(r'A_HAVE_([A-Z0-9]+)', rest)) & set(all_have)
            if d in ('if', 'ifdef', 'ifndef'):
                stack.append(set(names))
            elif d == 'elif' and stack:
                stack[-1] |= names
            elif d == 'endif' and stack:
                stack.pop()
            if d in ('if', 'ifdef', 'ifndef', 'elif'):
                inv = set().union(*stack) if stack else set()
                if 2 <= len(inv) <= 4:
                    groups.add(frozenset(inv))
    out, seen = [], set()
    for g in sorted(groups, key=sorted):
        g = sorted(g)
        for vals in itertools.product((0, 1), repeat=len(g)):
            for others in (1, 0):
                have = [h for h in all_have if (vals[g.index(h)] if h in g else others)]
                key = tuple(have)
                if key in seen or len(have) >= len(all_have) - 1 or not have:
                    continue  # all on, one off alone, all off: built anyway
                seen.add(key)
                out.append(dict(name='arm-' + '-'.join('%s%d' % (h, v) for h, v in zip(g, vals)) + ('-rest-on' if others else '-rest-off'), real=8, have=have))
    return out[:limit]
