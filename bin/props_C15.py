"""C15 - polynomial trajectories meet all boundary conditions with consistent derivatives (harness/h_poly.c; float/long double: h_poly_w.c)."""

try:
    _HAS_FMA = ' fma ' in open('/proc/cpuinfo').read()
except OSError:
    _HAS_FMA = False

SPEC = dict(
    harness=['h_poly.c', 'h_poly_ext.c'],
    # the default (double) build runs the full harness; the other two real widths run a compact type-generic companion
    configs=lambda tier: [dict(name='f64'), dict(name='f64-clang', libcc='clang', nworkers=4, of=8), dict(name='f64-o2', libflavour='san-o2', libdrop=['-fno-strict-aliasing'], nworkers=4, of=8), dict(name='f32', real=4, harness=['h_poly_w.c']), dict(name='f80', real=16, harness=['h_poly_w.c']),
                          dict(name='cxx', harness=['h_cxxw.c', 'h_cxxw_shim.cc'], hflags=['-DVF_CXXW=15'], nworkers=4),
                          # coefficient vectors longer than 2^32 over a sparsely backed mapping (unsanitised)
                          dict(name='giant', harness=['h_poly_giant.c'], flavour='fast', nworkers=2 if tier == 'quick' else 4)] +
                         # ISA axis: with -mfma <math.h> defines FP_FAST_FMA*, which selects other arms of conditional code (only where the CPU has it)
                         ([dict(name='f80-fma', real=16, harness=['h_poly_w.c'], cflags=['-mfma'], nworkers=3)] if _HAS_FMA else []),
    parallel_configs=8,
    workers={'quick': 12, 'thorough': 36},
    level='exploration',
    rule='boundary data sets are drawn at random: main regime = every boundary value non-zero, sign random, magnitude log-uniform in '
         '[1e-3,1e3), duration ts log-uniform in [1e-4,1e4), an exact power of two 2^-13..2^13, or (one draw in five) log-uniform in [1e-38,1e38) (1 set in 16 is "sparse": zeros and '
         'integers mixed in); exact regime = integer data (jerks multiples of 3) with ts in {1, 2, 1/2}. Each set is one evaluation: '
         'a_trajpolyN_gen, then every accessor and every output function at 0, ts and 3 query times is judged (exact at time 0, '
         'C*eps*S residual bound at ts with C=2^8/2^13/2^19, 4 ulp for accessors, a-priori Horner bound against __float128 for outputs, '
         'exact equality wherever the arithmetic is exact). a_poly_eval/evar/swap vectors (length 0..13, four data classes) are one '
         'evaluation each. distinct_nontrivial counts distinct (order 3/5/7, decade of ts, sign pattern of the boundary data) cells '
         'in which at least one trajectory was fully judged (8 decades x (16+64+256) patterns = 2688 possible) - NOT the number of '
         'data sets; a_poly_* vectors do not contribute to it.',
    exhaustive={'quick': None, 'thorough': None},
    require=['data-almost-consistent-with-a-lower-order-motion', 'giant-coefficient-vector', 'trajpoly/evaluator-called-again-after-object-changed', 'poly/literal-length-call-site', 
        'a_trajpoly3::gen(3 args)', 'a_trajpoly5::gen(3 args)', 'a_trajpoly7::gen(3 args)', 'a_trajpoly7::gen(9 args)', 'a_trajpoly3::pos', 'a_trajpoly5::vel', 'a_trajpoly7::jer', 'a_trajpoly7::c3', 'a_trajpoly5::c2', 'a_trajpoly3::c0',
        # time 0
        't0/pos==p0-bitwise', 't0/vel==v0-bitwise', 't0/acc==a0-bitwise', 't0/jer==j0-4ulp',
        # time ts, per order
        'end3/pos==p1', 'end3/vel==v1',
        'end5/pos==p1', 'end5/vel==v1', 'end5/acc==a1',
        'end7/pos==p1', 'end7/vel==v1', 'end7/acc==a1', 'end7/jer==j1',
        # accessors
        'c0==stored', 'c1[i]==(i+1)c[i+1]-4ulp', 'c2[i]==(i+2)(i+1)c[i+2]-4ulp', 'c3[i]==(i+3)(i+2)(i+1)c[i+3]-4ulp',
        # outputs
        'pos==horner(c0)', 'vel==horner(c1)', 'acc==horner(c2)', 'jer==horner(c3)',
        'vel==d/dx-pos', 'acc==d2/dx2-pos', 'jer==d3/dx3-pos', 'output-exact-when-recurrence-is-exact',
        # exact regime
        'exact/coefficient==documented-closed-form', 'exact/end3-bitwise', 'exact/end5-bitwise', 'exact/end7-bitwise',
        'exact/jer(0)==j0-bitwise',
        # a_poly_*
        'poly/eval==sum-a[i]x^i', 'poly/evar==sum-a[i]x^(n-1-i)', 'poly/eval-bitwise-on-exact-data', 'poly/evar-bitwise-on-exact-data',
        'poly/small-int-data-is-exact', 'poly/pointer-pair-form==size-form', 'poly/exported==inline', 'poly/swap-reverses',
        'poly/eval(swap(a))==evar(a)-bitwise', 'poly/swap-is-involution', 'poly/n=0-returns-0', 'poly/n=1-returns-a[0]',
        # width companion (float and long double builds, harness/h_poly_w.c)
        'w-c0==stored', 'w-exact/coefficient==documented-closed-form', 'w-coefficient-vs-documented-closed-form', 'w-ck[i]==(i+k)!/i!*c[i+k]',
        'w-output==derivative-of-stored-polynomial', 'w-output-exact-when-recurrence-is-exact', 'w-t0/output==initial-value-exactly',
        'w-t0/jer==j0-2eps', 'w-end/output==final-value', 'w-exact/end-bitwise', 'w-poly/n=0-returns-0', 'w-poly/eval==sum-a[i]x^i',
        'w-poly/evar==sum-a[i]x^(n-1-i)', 'w-poly/pointer-pair-form==size-form', 'w-poly/swap-reverses',
        'w-poly/eval(swap(a))==evar(a)-bitwise', 'w-poly/swap-is-involution',
    ],
    cov_files=['trajpoly3.c', 'trajpoly5.c', 'trajpoly7.c', 'poly.c'],
    cov_cases=64, cov_funcs=r'^a_trajpoly[357]_|^a_poly_(eval|evar|swap)',
    assumptions=[
        'only executions produced by this run are judged (runtime monitoring, not proof)',
        'gcc 12 / x86-64 LP64 little-endian, A_SIZE_POINTER=8; library rebuilt from /repo working tree with -fsanitize=address,undefined',
        'full harness: a_real = double (A_SIZE_REAL=8), round-to-nearest, no FMA contraction (-ffp-contract=off). The float (A_SIZE_REAL=4, SSE, no excess '
        'precision) and x87 long double (A_SIZE_REAL=16, 64-bit significand) builds run the compact companion harness/h_poly_w.c (configs f32, f80; counters w-...): '
        'integer data with ts in {1,2,1/2} (coefficients == documented closed forms, initial and final values == the data), full-mantissa data with magnitudes '
        'and durations in 1e-2..1e2 (coefficients within 16 eps*sum|terms| of the closed forms, jer(0) within 2 eps|j0|, end residuals within the same C*eps*S with '
        'eps of the working type), every accessor and output function against the binary128 derivative of the stored polynomial, and the exported a_poly_eval/evar/swap '
        '(lengths 0..12) - all on exact-size 0xA5-filled heap blocks',
        'durations are positive and finite (1e-4..1e4), boundary values finite with magnitude 1e-3..1e3 (or 0 / small integers): no '
        'overflow, underflow, infinities or NaNs are fed in; "exactly at time zero" is judged with ==, i.e. bitwise for every non-zero '
        'value (the sign of a zero result is not judged)',
        '"rounding error proportional to the size of the boundary data" is made concrete as C*2^-52*S with '
        'S=|p0|+|p1|+(|v0|+|v1|)ts+(|a0|+|a1|)ts^2+(|j0|+|j1|)ts^3 and the calibrated C=2^8/2^13/2^19 (DESIGN.md C15); '
        'jer(0) within 4 ulp because the stored coefficient is j0*fl(1/6)',
    ],
    level_text='Each of the three generators is run on millions of random boundary data sets in which no boundary value is zero (so every '
               'term and every numeric constant of the closed-form coefficient formulas influences the result), over eight decades of '
               'duration and every sign pattern of the data; the monitors then read back every accessor and every output function: initial '
               'values exactly, final values against a residual bound scaled by the data, derivative accessors against k(k-1)..c[k], outputs '
               'against a __float128 Horner of the accessor coefficients AND against the exact derivative of the stored position polynomial '
               'under the classical a-priori Horner bound. On integer data with ts in {1,2,1/2} all arithmetic is exact, so coefficients '
               'must equal the documented closed forms and all end conditions must hold bit for bit. a_poly_eval/evar/swap (inline, '
               'pointer-pair and exported forms) are judged on lengths 0..13 against __float128 power sums, exactly on small-integer data, '
               'with reversal/involution/eval(swap)==evar identities and exact-size heap blocks under ASan. Exploration is the right level: '
               'the functions are pure, straight-line floating-point code whose input space is a continuum that can only be sampled.',
    level_note='trusted: libquadmath/__float128 arithmetic of gcc 12, the harness references (power sums, falling factorials, the closed '
               'forms copied from the header documentation); the residual constants 2^8/2^13/2^19 are calibrated, not derived - worst '
               'observed ratios (thorough, 16.8M data sets per seed, seeds 1..5) reach 18.0 / 578 / 3.48e4 (cubic / quintic / septic), i.e. >= 14x below the bound, '
               'while a wrong constant or sign moves a residual by Omega(S) = 1e9 x the bound; the a-priori Horner bounds are rigorous '
               '(observed <= 0.61 of the bound). Negative or non-finite durations and subnormal/huge data are not explored. In the float and long double builds only the companion workload is '
               'run (40 000 cases per width in quick, 1.6 M in thorough; durations 1e-2..1e2 rather than 1e-38..1e38, inline a_poly_* bodies only through their exported twins); '
               'worst end residuals observed there stay >= 14x below C*eps*S, coefficient errors <= 0.45 of the 16 eps*sum|terms| bound (thorough, seeds 1..3).',
    technique='randomised input sweep with boundary-condition residual monitors, __float128 reference evaluation with a-priori error '
              'bounds, exact-arithmetic regime with bitwise oracles, under ASan+UBSan'
              '; float / long double companion harness; C++ member vs C function twin execution on one object; literal-length call sites of the inline routines',
)
