#!/usr/bin/env python3
"""usage: bin/seed_keep.py <Cxx> <A|B> <checks,comma> [tier]
Verify a seeded fault delivered in /tmp/seed-<Cxx>/out/<V>/ independently (bin/seed_verify.sh), run the given checks
against it (bin/selftest.py) and, if the fault is confirmed, keep it as /verif/seeded/<Cxx>-<V>/ with meta.json."""
import sys, os, json, subprocess, shutil, re
VERIF = os.path.dirname(os.path.dirname(os.path.abspath(__file__)))
prop, var, checks = sys.argv[1], sys.argv[2], sys.argv[3].split(',')
tier = sys.argv[4] if len(sys.argv) > 4 else 'quick'
destv = sys.argv[5] if len(sys.argv) > 5 else var
src = '/tmp/seed-%s/out/%s' % (prop, var)
r = subprocess.run([os.path.join(VERIF, 'bin', 'seed_verify.sh'), '/tmp/seed-' + prop, var], capture_output=True, text=True, errors='replace')
res = [l for l in r.stdout.splitlines() if l.startswith('RESULT')]
print(r.stdout[-1200:])
if r.returncode != 0:
    print('NOT CONFIRMED:', res)
    sys.exit(1)
st = subprocess.run([os.path.join(VERIF, 'bin', 'selftest.py'), '--tier', tier, '--checks', ','.join(checks), '--patch', os.path.join(src, 'patch.diff')],
                    capture_output=True, text=True, errors='replace')
print(st.stdout[-1500:])
line = [l for l in st.stdout.splitlines() if l.startswith('patch ')]
det = json.loads(line[0].split(' ', 1)[1]) if line else {}
dst = os.path.join(VERIF, 'seeded', '%s-%s' % (prop, destv))
shutil.rmtree(dst, ignore_errors=True)
os.makedirs(dst)
for f in os.listdir(src):
    if f.startswith('foreign') or f.endswith('.log') or os.path.isdir(os.path.join(src, f)):
        continue
    if os.path.getsize(os.path.join(src, f)) < 200000:
        shutil.copy(os.path.join(src, f), os.path.join(dst, f))
notes = open(os.path.join(src, 'notes.md'), errors='replace').read() if os.path.exists(os.path.join(src, 'notes.md')) else ''
head = subprocess.run(['git', '-C', '/repo', 'rev-parse', '--short', 'HEAD'], capture_output=True, text=True, errors='replace').stdout.strip()
meta = dict(id='%s-%s' % (prop, destv), property=prop, checks=checks,
            origin='independent sub-agent given only the property text and a private worktree of /repo at %s' % head,
            needs_to_manifest=notes,
            confirmed=dict(by='bin/seed_verify.sh in a scratch worktree', result=res[0] if res else '',
                           meaning='patch applies; library + 41 repository tests build and pass with it; demo passes without and fails with the change'),
            detection={c: dict(tier=tier, exit=v.get('rc'), keys=v.get('keys')) for c, v in det.items()} if isinstance(det, dict) else {})
json.dump(meta, open(os.path.join(dst, 'meta.json'), 'w'), indent=1)
print('kept', dst, {c: (v.get('rc'), v.get('keys')) for c, v in det.items()})
