"""C18 - UTF-8 codec round-trips every code point and never reads past the buffer (harness/h_utf.c)."""

SPEC = dict(
    harness=['h_utf.c'],
    level='exploration',
    rule='code points are enumerated (thorough: every c in [1,2^31) in chunks of 2^20; quick: [1,0x20000], +-4096 around the borders '
         '0x200000 and 0x4000000, the top 8192, 2^24 random) and each is judged exactly: encode length (buffer and NULL variant) and '
         'bytes against the table of a/utf.h, decode(encode(c)) = (length, c), every proper prefix -> 0, decode with 1..7 further bytes '
         'behind the character. Byte strings are enumerated (all 1- and 2-byte strings; lead byte x all strings of 0..5 class '
         'representatives {00 7F 80 BF C0 C2 E0 F0 F8 FC FE FF}, i.e. every truncation length; leads FC..FF with 6..7 bytes behind them) '
         'or random (uniform, class-weighted, cut or corrupted encodings); every string is copied into its own exact-size heap block so '
         'that ptr+num is an ASan red zone, a_utf_decode is judged at every position the fold reaches (length <= num and <= 6, bytes '
         '1..len-1 are 10xxxxxx, val/NULL variants agree, leading NUL -> 0), a_utf_length count/stop against that fold, a_utf_length_ '
         'executed against the red zone and judged by value on well-formed (cut / NUL-terminated) strings only. '
         'distinct_nontrivial counts distinct cells, NOT inputs: (a) 4096-code-point blocks [4096k, 4096k+4096) in which code points were '
         'round-tripped (in range sweeps: all of them), plus (b) distinct (min(num,7), class signature of the first <= 6 bytes) of judged '
         'byte strings, classes = NUL / ASCII / 10xxxxxx / 2- / 3- / 4- / 5- / 6-byte lead / FE-FF. The number of code points and strings '
         'judged is `evaluations` and the per-clause monitor counts.',
    exhaustive={'thorough': 'all 2^31-1 code points (encode, decode, every proper prefix, trailing bytes); all 1- and 2-byte strings; '
                            'all 256 lead bytes x all strings of 0..5 class representatives (lengths 1..6)',
                'quick': None},
    require=['length-of-long-run-at-unaligned-start', 'length-of-run-followed-by-live-ascii', 'giant-stated-length-decode', 'utf_catc-into-tight-string', 'encode-zero-has-length-0', 'encode-length-vs-table', 'encode-null-buffer-length', 'encode-bytes-vs-table',
             'roundtrip-decode-length-and-value', 'proper-prefix-rejected', 'roundtrip-with-trailing-bytes', 'decode-result-cell-overlapping-the-input',
             'decode-val-and-null-variants-agree', 'decode-length-within-num-and-6', 'decode-trailing-bytes-are-continuation',
             'decode-leading-nul-returns-0', 'length-equals-decode-fold', 'length-stop-equals-decode-fold',
             'length_-executed-against-red-zone', 'length-wellformed-count-and-stop', 'length_-wellformed-count'],
    cov_files=['utf.c'],
    cov_cases=24, cov_funcs=r'^a_utf_',
    # 'clang': the library compiled by clang 14 (compiler-conditional code, unspecified evaluation order), half of the cases
    configs=lambda tier: [dict(name='mt', harness=['h_mt_codec.c'], hflags=['-DVF_MT=18'], flavour='tsan', nworkers=1), dict(name='default'), dict(name='clang', libcc='clang', nworkers=4, of=8), dict(name='o2', libflavour='san-o2', libdrop=['-fno-strict-aliasing'], nworkers=4, of=8)],
    parallel_configs=4,
    workers={'quick': 8, 'thorough': 16},
    timeout={'quick': 900, 'thorough': 7200},
    assumptions=[
        'only executions produced by this run are judged (runtime monitoring, not proof)',
        'gcc 12 / x86-64 LP64 little-endian, A_SIZE_POINTER=8; library rebuilt from /repo working tree with -fsanitize=address,undefined',
        '"never reads beyond the stated length" is observed through ASan red zones of exact-size heap blocks (library and harness '
        'instrumented); byte strings longer than 6 bytes are sampled (random, <= 24 bytes), not enumerated',
        'not demanded, because the property does not state it: rejection of over-long forms, surrogates or stray continuation bytes; '
        'the decoded value of byte strings that are not encodings; the value of a_utf_length_ on ill-formed input '
        '(a_utf_catc in str.c is covered by C06)',
    ],
    level_text='The code-point half of the property is a for-all over 2^31-1 values and is executed completely in the thorough tier: every code '
               'point is encoded into an exact-size heap block (a byte too many is an ASan report), compared with the table of a/utf.h, '
               'decoded back, decoded at every proper prefix (each prefix in its own exact-size block) and decoded with further bytes behind '
               'it. The byte-string half is explored by enumeration of all short strings over all lead bytes and the class representatives '
               'at every truncation length plus 10^7 random strings, with the red zone directly behind `num` for every single call; '
               'a_utf_length is compared with the fold of a_utf_decode and, on well-formed input, with the count known by construction. '
               'This is the right level because the codec is pure and its interesting input space is small enough to enumerate.',
    level_note='trusted: the harness reference encoder (table of a/utf.h) and ASan red-zone detection; strings of more than 6 bytes are sampled; '
               'a_utf_length_ is not validating, its value is only judged on well-formed input',
    technique='exhaustive input sweep with exact table oracle; every library-visible buffer an exact-size heap block under ASan+UBSan; result cell overlapping the input bytes',
)
