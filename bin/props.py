"""Static per-property configuration of bin/check (harness sources, tiers, evidence text)."""

ALL_HAVE = ['ASINH', 'ACOSH', 'ATANH', 'EXPM1', 'LOG1P', 'ATAN2', 'HYPOT', 'CSQRT', 'CPOW', 'CEXP',
            'CLOG', 'CSIN', 'CCOS', 'CTAN', 'CSINH', 'CCOSH', 'CTANH', 'CASIN', 'CACOS', 'CATAN',
            'CASINH', 'CACOSH', 'CATANH']

COMMON_ASSUMPTIONS = [
    'only executions produced by this run are judged (runtime monitoring, not proof)',
    'gcc 12 / x86-64 LP64 little-endian, A_SIZE_POINTER=8; library rebuilt from /repo working tree with -fsanitize=address,undefined',
]

PROPS = {}
NOT_APPLICABLE = {}
# properties whose check has been reviewed, soaked over several seeds and self-tested; only these are claimed in MANIFEST.json
READY = ['C01', 'C02', 'C03', 'C04', 'C05', 'C06', 'C07', 'C08', 'C09', 'C10', 'C11', 'C12', 'C13', 'C14', 'C15', 'C16', 'C17', 'C18', 'C19', 'C20']

PROPS['C19'] = dict(
    harness=['h_int.c', 'h_int_ext.c'],
    # 'clang': the library (and with it the exported copies of the inline functions, which h_int_ext.c calls) compiled by clang 14:
    # compiler-conditional code (__has_builtin, version tests) takes its other arm there (seeded change C19-I)
    configs=lambda tier: [dict(name='mt', harness=['h_mt_codec.c'], hflags=['-DVF_MT=19'], flavour='tsan', nworkers=1), dict(name='default'), dict(name='clang', libcc='clang', nworkers=4), dict(name='o2', libflavour='san-o2', libdrop=['-fno-strict-aliasing'], nworkers=4),
                          # the caller's rounding mode as a hidden input (seeded change C19-J): every case runs under one of the four rounding modes
                          dict(name='fenv', hflags=['-DVF_FENV_ROTATE', '-DVF_X87PC_ROTATE'], nworkers=4)],
    parallel_configs=5,
    level='exploration',
    rule='inputs are enumerated (exhaustive ranges, k^2 and k^2+-1, 2^n and 2^n+-1, all pairs <1024) or drawn at random with '
         'uniformly distributed bit length; each is judged by exact integer arithmetic (64/128-bit squares, independent binary gcd, '
         'bit-by-bit reversal, explicit byte arrays). distinct_nontrivial counts distinct (function, bit length of the argument, '
         'argument class) cells in which at least one input was judged - NOT the number of inputs (evaluations).',
    exhaustive={'thorough': 'all 2^32 arguments of a_u32_sqrt; all words of a_u8_rev, a_u16_rev, a_u32_rev; all gcd/lcm pairs < 1024',
                'quick': None},
    require=['sqrt32', 'sqrt64', 'gcd32', 'gcd64', 'lcm32', 'lcm64', 'rev', 'setl-layout', 'setb-layout', 'getl-inverse', 'getb-inverse', 'gcd-longest-euclid-chains', 'exported-accessors-back-to-back', 'sqrt64-around-small-multiples-of-powers-of-two', 'sqrt64-upper-part-next-to-a-perfect-square'],
    cov_files=['math.c', 'a.c'],
    cov_cases=200, cov_funcs=r'^a_u(8|16|32|64)_',
    assumptions=COMMON_ASSUMPTIONS + ['"regardless of host byte order" is exercised on this little-endian host only'],
    level_text='Every 32-bit argument of the integer square root is executed and judged exactly (thorough), 64-bit arguments are judged on '
               'structured families (all x<2^24, k^2 and k^2+-1 incl. the top of the range, 2^n+-1) plus random words of every bit length; '
               'gcd/lcm against an independent binary gcd on all pairs <1024 and random/structured pairs; bit reversal exhaustively for 8/16/32 '
               'bits and by basis+XOR-linearity for 64 bits; byte-order accessors against explicit byte arrays at every alignment under ASan. '
               'This is the right level because the functions are pure and their input spaces are (partly) small enough to enumerate.',
    level_note='trusted: gcc __int128 arithmetic and the harness reference implementations (binary gcd, bit-by-bit reversal); '
               '64-bit domains are sampled, not enumerated; little-endian host only',
    technique='exhaustive/structured input sweep with exact-arithmetic oracle under ASan+UBSan',
)

# per-property fragments: bin/props_Cxx.py each define SPEC (same keys as above)
import glob as _glob, os as _os, importlib.util as _ilu
for _p in sorted(_glob.glob(_os.path.join(_os.path.dirname(_os.path.abspath(__file__)), 'props_C[0-9][0-9].py'))):
    _spec = _ilu.spec_from_file_location(_os.path.basename(_p)[:-3], _p)
    _m = _ilu.module_from_spec(_spec)
    _spec.loader.exec_module(_m)
    PROPS[_os.path.basename(_p)[6:9]] = _m.SPEC

# re-entrancy monitor (DESIGN.md 4, "schedules"): every C check gets a configuration "mt" built with -fsanitize=thread, in which the
# anchored routines are run alone and then from four threads at once on private data (harness/vf_mt.h). C17-C19 name theirs in the spec.
_MT_TECH = '; re-entrancy monitor: every anchored routine alone, then from four threads at once on private data, digests compared, under ThreadSanitizer'
_MT_ASSUME = ('configuration mt: the library is built with -fsanitize=thread; work items are pure functions of their random stream and are first run alone '
              '(reference digests, and twice to show they are deterministic), then concurrently from four threads on private objects; a data race report or a '
              'digest that differs from the single-threaded one is a violation (hidden shared state: function-local statics, caches, globals)')


def _note_mt(spec):
    spec['technique'] = spec.get('technique', '') + _MT_TECH
    spec['assumptions'] = list(spec.get('assumptions', [])) + [_MT_ASSUME]


_MT_READY = [1, 2, 3, 4, 5, 6, 7, 8, 9, 10, 11, 12, 13, 14, 15, 16]


def _with_mt(spec, n, extra=()):
    base = spec.get('configs', lambda tier: [dict(name='default')])
    mt = [dict(name='mt', harness=['h_mt_all.c'], hflags=['-DVF_MT=%d' % n], flavour='tsan', nworkers=1)] + \
         [dict(c, harness=['h_mt_all.c'], hflags=['-DVF_MT=%d' % n], flavour='tsan', nworkers=1) for c in extra]
    spec['configs'] = lambda tier: mt + base(tier)
    spec['parallel_configs'] = spec.get('parallel_configs', 1) + len(mt)
    _note_mt(spec)


for _n in _MT_READY:
    # C10, C11: the library's own fallback bodies (every A_HAVE_* switch off) run under the monitor as well
    _with_mt(PROPS['C%02d' % _n], _n, [dict(name='mt-fallback', have=[])] if _n in (10, 11) else ())

# the caller's floating-point rounding mode as a hidden input (seeded change C19-J): the properties whose results are integers, bytes,
# links or sequences get a configuration "fenv" in which every case runs under one of the four rounding modes (half of the cases).
# C19 names its own (all cases). The numeric properties are not run this way: their accuracy clauses are stated for round-to-nearest.
_FENV = [1, 2, 3, 4, 5, 6, 7, 17, 18]


def _note_fenv(spec):
    spec['technique'] = spec.get('technique', '') + '; every case also under the directed rounding modes and the three x87 precision-control settings (configuration fenv)'
    spec['assumptions'] = list(spec.get('assumptions', [])) + ['configuration fenv: each case runs under one of FE_DOWNWARD / FE_TOWARDZERO / FE_UPWARD / FE_TONEAREST '
                                                               '(a function of seed and case number); results that are integers, bytes, links or sequences must not depend on it']


def _with_fenv(spec):
    base = spec['configs'] if 'configs' in spec else (lambda tier: [dict(name='default')])
    spec['configs'] = lambda tier: base(tier) + [dict(name='fenv', hflags=['-DVF_FENV_ROTATE', '-DVF_X87PC_ROTATE'], nworkers=4, of=8)]
    spec['parallel_configs'] = spec.get('parallel_configs', 1) + 1
    _note_fenv(spec)


for _n in _FENV:
    _with_fenv(PROPS['C%02d' % _n])
for _n in (17, 18, 19):
    _note_mt(PROPS['C%02d' % _n])
_note_fenv(PROPS['C19'])

# the library as users run it (seeded change C04-K): -O3, NDEBUG, no sanitizer, strict aliasing; the harness stays at -O1 (hflavour). Half of the cases.
_O3 = list(range(1, 20))


def _with_o3(spec):
    base = spec['configs'] if 'configs' in spec else (lambda tier: [dict(name='default')])
    spec['configs'] = lambda tier: base(tier) + [dict(name='o3-unsanitised', flavour='o3', hflavour='plain', libdrop=['-fno-strict-aliasing'], nworkers=4, of=8)]
    spec['parallel_configs'] = spec.get('parallel_configs', 1) + 1
    spec['technique'] = spec.get('technique', '') + '; the same workload against an unsanitised -O3 -DNDEBUG build of the library'
    spec['assumptions'] = list(spec.get('assumptions', [])) + ['configuration o3-unsanitised: library at -O3 -DNDEBUG with strict aliasing and without sanitizer instrumentation (which itself '
                                                               'suppresses optimisations); judged by the models and oracles alone; half of the cases']


for _n in _O3:
    _with_o3(PROPS['C%02d' % _n])

# ... and against a size-optimised one (-Os -DNDEBUG: __OPTIMIZE_SIZE__ is a predefine the sources can branch on - seeded change C19-M)
def _with_os(spec, of):
    base = spec['configs'] if 'configs' in spec else (lambda tier: [dict(name='default')])
    spec['configs'] = lambda tier: base(tier) + [dict(name='os-unsanitised', flavour='os', hflavour='plain', libdrop=['-fno-strict-aliasing'], nworkers=2, of=of)]
    spec['parallel_configs'] = spec.get('parallel_configs', 1) + 1
    spec['technique'] = spec.get('technique', '') + '; and against an unsanitised -Os -DNDEBUG build'
    spec['assumptions'] = list(spec.get('assumptions', [])) + ['configuration os-unsanitised: library at -Os -DNDEBUG (size-optimised; the compiler predefines __OPTIMIZE_SIZE__), strict aliasing, no sanitizer; '
                                                               'judged by the models and oracles alone; %s of the cases' % ('all' if of == 1 else 'one in %d' % of)]


for _n in _O3:
    _with_os(PROPS['C%02d' % _n], 2 if _n in (17, 18, 19) else 8)

# the real width selected through A_REAL_TYPE instead of A_SIZE_REAL (seeded change C10-M): a sibling of the first float / long double configuration of each check
def _with_real_type(spec):
    base = spec['configs']

    def configs(tier):
        cs = base(tier)
        out = []
        for w in (4, 16):
            for c in cs:
                if c.get('real') == w and not c.get('hflags') and c.get('flavour') in (None, 'san') and not c.get('libflags') and not c.get('cflags'):
                    d = dict(c)
                    d.update(name=c['name'] + '-by-real-type', real_via_type=True, nworkers=2, of=4)
                    if c['name'].startswith('all-off'):  # C10, C11: every switch on here (the usual build), their float configuration has them off
                        d.pop('zero', None)
                        d.pop('have', None)
                        d['name'] = 'all-on-f%d-by-real-type' % (w * 8)
                    out.append(d)
                    break
        return cs + out
    spec['configs'] = configs
    spec['parallel_configs'] = spec.get('parallel_configs', 1) + 1
    spec['technique'] = spec.get('technique', '') + '; the float / long double widths also selected through A_REAL_TYPE with A_SIZE_REAL undefined'


for _n in range(8, 17):
    _with_real_type(PROPS['C%02d' % _n])

# the C DIALECT the library is compiled in (seeded change C10-N): `-std=gnu89` for the library alone. a.h chooses types by __STDC_VERSION__ (a_bool is _Bool from C99 on and unsigned char
# before: a value such as gcc's signbit() result 0x80000000 survives the first and truncates to 0 in the second), inline / restrict / long long / designated forms take their other arms.
# A sibling of each check's first float configuration where it has one (C10, C11: fallback bodies, float), else of its main configuration.
def _with_gnu89(spec):
    base = spec['configs'] if 'configs' in spec else (lambda tier: [dict(name='default')])

    def configs(tier):
        cs = base(tier)
        pick = None
        for c in cs:
            if c.get('real') == 4 and not c.get('hflags') and c.get('flavour') in (None, 'san') and not c.get('libflags') and not c.get('cflags') and not c.get('real_via_type'):
                pick = c
                break
        if pick is None:
            for c in cs:
                if not c.get('harness') and not c.get('hflags') and c.get('flavour') in (None, 'san') and not c.get('libflags') and not c.get('cflags') and not c.get('libcc') and not c.get('libflavour'):
                    pick = c
                    break
        if pick is None:
            return cs
        d = dict(pick)
        d.update(name=pick['name'] + '-gnu89', libdrop=list(pick.get('libdrop', [])) + ['-std=gnu11'], libflags=['-std=gnu89'], hflags=['-DVF_LIB_GNU89'], nworkers=2, of=4)
        return cs + [d]
    spec['configs'] = configs
    spec['parallel_configs'] = spec.get('parallel_configs', 1) + 1
    spec['technique'] = spec.get('technique', '') + '; the library also compiled as gnu89'


for _n in range(1, 20):
    _with_gnu89(PROPS['C%02d' % _n])

# byte order of aggregate members reversed (gcc -fsso-struct=big-endian, library side only): every scalar that lives in a struct or union is stored most significant
# byte first, as on a big-endian machine, while plain objects, pointers and the harness keep the host order. The part of "regardless of byte order" that can be
# EXECUTED on this little-endian host: code that reaches the bytes of a word through a union or struct member (seeded change C17-M: the CRC state kept in a
# union, table index read as byte[0]) computes with the other end of the word. Only for the pure byte / word routines, whose interfaces pass no aggregates.
def _sso_sound():
    """-fsso-struct reverses aggregate members only; __BYTE_ORDER__ (and with it A_BYTE_ORDER) still says little-endian. Code that CONSULTS the byte order - and is right on
    every real machine - would meet a combination no machine has, and could be reported although the property holds. So the configuration is run only while no source line
    consults a byte-order macro (the pinned tree only DEFINES A_BYTE_ORDER / A_ORDER_*); otherwise it is omitted and the technique text of the evidence says why."""
    import os as _o, re as _r, glob as _g
    repo = _o.environ.get('VF_REPO', '/repo')
    tok = _r.compile(r'\b(A_BYTE_ORDER|A_ORDER_LITTLE|A_ORDER_BIG|__BYTE_ORDER__|__ORDER_\w+_ENDIAN__|__LITTLE_ENDIAN__|__BIG_ENDIAN__|__BYTE_ORDER|BYTE_ORDER|__ARMEB__|__MIPSEB__)\b')
    defn = _r.compile(r'^\s*#\s*(if\s+!?\s*defined\s*\(?\s*\w+\s*\)?\s*(/\*.*\*/\s*)?$|define\s+A_(BYTE_ORDER|ORDER_LITTLE|ORDER_BIG)\b|else\b|endif\b)')
    for f in _g.glob(_o.path.join(repo, 'src', '*.c')) + _g.glob(_o.path.join(repo, 'include', 'a', '*.h')):
        incomment = False
        for ln in open(f, errors='replace'):
            t = ln.strip()
            if incomment or t.startswith('/*') or t.startswith('*') or t.startswith('//') or t.startswith('@'):
                incomment = ('/*' in t and '*/' not in t) or (incomment and '*/' not in t)
                continue
            if tok.search(ln) and not defn.match(ln):
                return False
    return True


def _with_sso(spec):
    base = spec['configs'] if 'configs' in spec else (lambda tier: [dict(name='default')])
    spec['configs'] = lambda tier: base(tier) + ([dict(name='sso-big-endian', flavour='san-o2', libflags=['-fsso-struct=big-endian'], nworkers=4, of=4)] if _sso_sound() else [])
    spec['parallel_configs'] = spec.get('parallel_configs', 1) + 1
    spec['technique'] = spec.get('technique', '') + '; the library with the byte order of its aggregate members reversed (-fsso-struct=big-endian)'
    spec['assumptions'] = list(spec.get('assumptions', [])) + ['configuration sso-big-endian: gcc scalar storage order "big-endian" for every struct and union of the library sources (not a big-endian '
                                                               'target: plain objects and pointer casts keep the host order); a quarter of the cases']


for _n in (17, 19):  # not C18: a_utf_len / a_utf_catc take an a_str, which the harness fills in host order
    _with_sso(PROPS['C%02d' % _n])

# link-time optimisation with strict aliasing on both sides (seeded changes C17-K, C19-K): harness/h_lto_codec.c hands the byte-oriented routines objects it has
# just written through typed lvalues; library routines are inlined into those callers
for _n in (17, 18, 19):
    _s = PROPS['C%02d' % _n]
    _b = _s['configs'] if 'configs' in _s else (lambda tier: [dict(name='default')])
    _s['configs'] = (lambda b, n: lambda tier: b(tier) + [dict(name='lto', harness=['h_lto_codec.c'], hflags=['-DVF_LTO=%d' % n], flavour='lto',
                                                               libdrop=['-fno-strict-aliasing'], hdrop=['-fno-strict-aliasing'], nworkers=2)])(_b, _n)
    _s['parallel_configs'] = _s.get('parallel_configs', 1) + 1
    _s['technique'] = _s.get('technique', '') + '; the byte-oriented routines inlined (LTO, -O3, strict aliasing) into callers that wrote the data through typed lvalues'
    _s['require'] = list(_s.get('require', [])) + [{17: 'lto-crc-hash-on-typed-objects', 18: 'lto-utf-on-typed-objects', 19: 'lto-accessors-on-typed-objects'}[_n]]

# ... and the trees (seeded change C01-K): harness/h_lto_tree.c, one call site per routine, root.node read through its own type right before and after each call
for _n, _fl in ((1, []), (2, ['-DVF_TREE_RBT'])):
    _s = PROPS['C%02d' % _n]
    _b = _s['configs']
    _s['configs'] = (lambda b, fl: lambda tier: b(tier) + [dict(name='lto', harness=['h_lto_tree.c'], hflags=fl, flavour='lto', libdrop=['-fno-strict-aliasing'],
                                                                hdrop=['-fno-strict-aliasing'], nworkers=2)])(_b, _fl)
    _s['parallel_configs'] = _s.get('parallel_configs', 1) + 1
    _s['technique'] = _s.get('technique', '') + '; insert / remove / search inlined (LTO, -O3, strict aliasing) into a client that reads root.node right before and after each call'
    _s['require'] = list(_s.get('require', [])) + ['lto-root-read-right-after-inlined-call', 'lto-root-changed-by-call']

# the routines EXECUTED under another data model (seeded change C17-L): harness/h_ilp32.c as a freestanding static i386 program (ILP32: int, long, size_t,
# pointers 32 bits; unsigned long narrower than a_u64; the 32-bit packed parent word of the tree nodes). Skipped (and said so in the evidence) where
# clang cannot produce or this kernel cannot run such a program.
def _ilp32_ok():
    import subprocess, tempfile, os as _o
    try:
        d = tempfile.mkdtemp(prefix='vf-ilp32-')
        src = _o.path.join(d, 't.c')
        open(src, 'w').write('void _start(void){ __asm__ volatile("int $0x80" :: "a"(1), "b"(42)); for(;;){} }\n')
        r = subprocess.run(['clang', '-m32', '-ffreestanding', '-nostdlib', '-static', '-fno-pie', src, '-o', _o.path.join(d, 't')], capture_output=True)
        ok = r.returncode == 0 and subprocess.run([_o.path.join(d, 't')], capture_output=True).returncode == 42
        import shutil
        shutil.rmtree(d, ignore_errors=True)
        return ok
    except Exception:
        return False


_ILP32 = _ilp32_ok()
_ILP32_SRC = {1: ['avl.c'], 2: ['rbt.c'], 17: ['crc.c', 'hash.c'], 18: ['utf.c'], 19: ['math.c', 'a.c']}
for _n in (1, 2, 17, 18, 19):
    _s = PROPS['C%02d' % _n]
    if not _ILP32:
        _s['assumptions'] = list(_s.get('assumptions', [])) + ['configuration ilp32 NOT RUN: clang -m32 cannot produce, or this kernel cannot execute, a freestanding i386 program here']
        continue
    _b = _s['configs'] if 'configs' in _s else (lambda tier: [dict(name='default')])
    _s['configs'] = (lambda b, n: lambda tier: b(tier) + [dict(name='ilp32', harness=['h_ilp32.c'], hflags=['-DVF_ILP32=%d' % n], flavour='ilp32', libcc='clang', hcc='clang',
                                                               lib_sources=_ILP32_SRC[n], ldflags=['-nostdlib', '-static', '-Wl,--gc-sections'], nolibs=True, nworkers=1)])(_b, _n)
    _s['parallel_configs'] = _s.get('parallel_configs', 1) + 1
    _s['technique'] = _s.get('technique', '') + '; the same routines executed as a freestanding i386 (ILP32) program'
    _s['assumptions'] = list(_s.get('assumptions', [])) + ['configuration ilp32: library sources and a freestanding harness compiled by clang -m32 -ffreestanding -nostdlib -static (own _start, int 0x80 '
                                                           'system calls, stub C-library headers) and executed natively: int / long / size_t / pointers are 32 bits there; integer-only monitors']
    _s['require'] = list(_s.get('require', [])) + [{1: 'ilp32-tree-walk-after-every-call', 2: 'ilp32-tree-walk-after-every-call', 17: 'ilp32-crc-vs-bitwise-division', 18: 'ilp32-utf-roundtrip',
                                                     19: 'ilp32-sqrt-floor-property'}[_n]]
