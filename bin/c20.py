import shutil
"""C20 - the Rust binding's repr(C) mirrors and extern "C" declarations against the C ABI, decided by
EXECUTING probes on both sides of the boundary (DESIGN.md section 4, C20):

 C side   : the library is compiled from /repo; field names/order come from the compiler's own DWARF
            (gdb ptype /o); a generated C++17 probe that includes every public header prints, for every
            struct, sizeof/alignof and per field offsetof/sizeof/class, and for every function the binding
            declares, arity and the (size, class, pointee size) of each parameter and of the result.
 Rust side: a probe crate = verbatim copy of /repo/src/lib.rs + an appended child module that prints the
            same tables as rustc sees them (size_of, align_of, offset_of!, per-type class through a trait),
            re-declares every extern item with the binding's own declaration text, takes the address of every
            foreign function (a missing symbol is a link error), then
            (a) hands position-coded bytes through every mirrored struct to a generated C reader and back
                (C writer -> Rust reader), and
            (b) drives the real library through the binding's public API (crc, pid, tf, trajectories,
                regression, version) and compares bit for bit with the same computation done in C, and
            (c) WRAPPER EQUIVALENCE by twin execution (harness/rs_equiv.rs, spliced into the child module): every
                `pub fn` of every impl block, every free `pub fn`, every trait-impl fn and every `pub const` of
                lib.rs is ENUMERATED from the source (enumerate_api) and must be covered: random histories of 10-40
                calls per object (deterministic PRNG from VERIF_SEED); each call is applied through the wrapper and,
                after restoring object + caller arrays, through the extern "C" function called directly (inline C
                functions / macros / documented initialisation sequences through C shims compiled against the real
                headers); result, object fields and caller arrays are compared bit for bit (all NaNs equal). CRC
                eval is also compared with a bitwise reference written in Rust. A `pub fn` the module does not
                cover, or never exercised, makes the run INCONCLUSIVE (evidence: uncovered_wrappers).
            Linked against the ASan/UBSan-instrumented library and run with the ASan runtime preloaded.
            Build stages: probe + equivalence module -> probe alone (equivalence reported as not checked,
            inconclusive) -> declarations only (lib.rs itself does not compile).
 Other targets (no execution): simulated_targets() re-executes a layout probe under compiler predefines the headers consult;
            cross_targets() lets clang -fsyntax-only --target=<triple> evaluate static assertions (C rendering of every mirror
            and foreign declaration against the current headers) for 17 foreign data models - LLP64, ILP32, big-endian, 16-bit.
"""
import os, re, json, subprocess, shutil, time, hashlib

ALL_HAVE = ['ASINH', 'ACOSH', 'ATANH', 'EXPM1', 'LOG1P', 'ATAN2', 'HYPOT', 'CSQRT', 'CPOW', 'CEXP',
            'CLOG', 'CSIN', 'CCOS', 'CTAN', 'CSINH', 'CCOSH', 'CTANH', 'CASIN', 'CACOS', 'CATAN',
            'CASINH', 'CACOSH', 'CATANH']
SAN = ['-O1', '-g', '-fno-omit-frame-pointer', '-fsanitize=address,undefined',
       '-fno-sanitize=nonnull-attribute,pointer-overflow', '-fno-sanitize-recover=all']


def sh(cmd, **kw):
    return subprocess.run(cmd, stdout=subprocess.PIPE, stderr=subprocess.STDOUT, text=True, **kw)


# ------------------------------------------------------------------ parsing lib.rs
def strip_comments(s):
    s = re.sub(r'/\*.*?\*/', '', s, flags=re.S)
    return re.sub(r'//[^\n]*', '', s)


def split_top(s, sep=','):
    out, depth, cur = [], 0, ''
    for ch in s:
        if ch in '([{<':
            depth += 1
        elif ch in ')]}>':
            depth -= 1
        if ch == sep and depth == 0:
            out.append(cur)
            cur = ''
        else:
            cur += ch
    if cur.strip():
        out.append(cur)
    return [x.strip() for x in out if x.strip()]


LEFTOVER = []  # items of the extern blocks the parser could not classify (filled by parse_librs)


def parse_librs(text):
    del LEFTOVER[:]
    src = strip_comments(text)
    structs = []
    for m in re.finditer(r'#\[repr\(C\)\]\s*(?:#\[[^\]]*\]\s*)*pub\s+struct\s+(\w+)\s*\{(.*?)\n\}', src, flags=re.S):
        fields = []
        for f in split_top(m.group(2).replace('->', '\x00')):
            f = f.replace('\x00', '->')
            f = re.sub(r'^pub(\([^)]*\))?\s+', '', f.strip())
            name, ty = f.split(':', 1)
            fields.append((name.strip(), ' '.join(ty.split())))
        structs.append(dict(name=m.group(1), fields=fields, text=m.group(0)))
    fns, statics = [], []
    # extern blocks: find 'extern "C" {' and match braces
    i = 0
    while True:
        k = src.find('extern "C" {', i)
        if k < 0:
            break
        j = k + len('extern "C" {')
        depth = 1
        while depth and j < len(src):
            if src[j] == '{':
                depth += 1
            elif src[j] == '}':
                depth -= 1
            j += 1
        body = src[k + len('extern "C" {'):j - 1]
        i = j
        for item in split_top(body.replace('->', ' \x00 '), ';'):
            item = ' '.join(item.split())
            if not item:
                continue
            item = re.sub(r'^pub(\([^)]*\))?\s+', '', item)
            m = None
            m0 = re.match(r'fn (\w+)\s*\(', item)
            if m0:
                # balanced parameter list
                d, e = 1, m0.end()
                while d and e < len(item):
                    d += item[e] == '('
                    d -= item[e] == ')'
                    e += 1
                rest = item[e:].strip()
                class _M:
                    pass
                m = _M()
                g = {1: m0.group(1), 2: item[m0.end():e - 1], 3: rest[1:].strip() if rest.startswith('\x00') else None}
                m.group = lambda i, g=g: g[i]
            if m:
                params = []
                for p in split_top(m.group(2)):
                    p = p.replace('\x00', '->')
                    pn, pt = p.split(':', 1)
                    params.append((pn.strip(), ' '.join(pt.split())))
                ret = (m.group(3) or '()').replace('\x00', '->').strip()
                fns.append(dict(name=m.group(1), params=params, ret=' '.join(ret.split()), text=item.replace('\x00', '->')))
                continue
            m = re.match(r'static (?:mut )?(\w+)\s*:\s*(.*)$', item)
            if m:
                statics.append(dict(name=m.group(1), ty=m.group(2).replace('\x00', '->').strip()))
                continue
            # neither `fn` nor `static` as this parser reads them (attribute in front, `type`, ...): the caller makes the run inconclusive
            LEFTOVER.append(item.replace('\x00', '->')[:200])
    # de-duplicate by name (the same symbol may be declared in several blocks)
    seen, ufns = {}, []
    for f in fns:
        if f['name'] in seen:
            if seen[f['name']]['text'] != f['text']:
                f['conflict'] = seen[f['name']]['text']
                ufns.append(f)
            continue
        seen[f['name']] = f
        ufns.append(f)
    return structs, ufns, statics


# ------------------------------------------------------------------ C side
def gdb_fields(obj, cname):
    r = sh(['gdb', '-batch', '-ex', 'ptype /o struct %s' % cname, obj])
    if 'No struct type named' in r.stdout or 'type = struct' not in r.stdout:
        return None
    fields, depth = [], 0
    for line in r.stdout.splitlines():
        m = re.match(r'^/\*\s*(\d+)(?::\s*\d+)?\s*\|\s*(\d+)\s*\*/\s+(.*)$', line)
        body = m.group(3) if m else re.sub(r'^/\*.*?\*/', '', line).strip()
        if 'type = struct' in line:
            depth = 1
            continue
        if depth == 0:
            continue
        opens, closes = body.count('{'), body.count('}')
        if depth == 1 and m and opens == 0 and body.endswith(';'):
            decl = body[:-1]
            fm = re.search(r'\(\*\s*(\w+)\s*\)\s*\(', decl) or re.search(r'(\w+)\s*(?:\[[^\]]*\]\s*)*(?::\s*\d+)?$', decl)
            fields.append(fm.group(1))
        elif depth == 2 and closes and not opens:
            fm = re.search(r'\}\s*(\w+)?\s*;', body)
            if fm and fm.group(1):
                fields.append(fm.group(1))
        depth += opens - closes
        if depth <= 0:
            break
    return fields


CXX_PRELUDE = r'''
#include <cstdio>
#include <cstddef>
#include <string>
#include <type_traits>
%(includes)s
template <class T> struct pointee_size { static size_t get() { return sizeof(T); } };
template <> struct pointee_size<void> { static size_t get() { return 0; } };
template <> struct pointee_size<void const> { static size_t get() { return 0; } };
template <class R, class... A> struct pointee_size<R(A...)> { static size_t get() { return 0; } };
template <class T> std::string cls()
{
    typedef typename std::remove_cv<T>::type U;
    char b[96];
    if (std::is_void<U>::value) { return "void"; }
    if (std::is_same<U, bool>::value) { return "bool:1"; }
    if (std::is_pointer<U>::value)
    {
        snprintf(b, sizeof(b), "ptr:%%zu/%%zu", sizeof(void *), pointee_size<typename std::remove_cv<typename std::remove_pointer<U>::type>::type>::get());
        return b;
    }
    if (std::is_array<U>::value)
    {
        snprintf(b, sizeof(b), "arr:%%zu*", (size_t)std::extent<U>::value);
        return std::string(b) + cls<typename std::remove_extent<U>::type>();
    }
    if (std::is_floating_point<U>::value) { snprintf(b, sizeof(b), "float:%%zu", sizeof(typename std::conditional<std::is_void<U>::value, char, U>::type)); return b; }
    if (std::is_integral<U>::value || std::is_enum<U>::value) { snprintf(b, sizeof(b), "int:%%zu", sizeof(typename std::conditional<std::is_void<U>::value, char, U>::type)); return b; }
    if (std::is_class<U>::value || std::is_union<U>::value) { snprintf(b, sizeof(b), "agg:%%zu", sizeof(typename std::conditional<std::is_void<U>::value, char, U>::type)); return b; }
    return "other";
}
template <class T> char const *sgn()
{
    typedef typename std::remove_cv<T>::type U;
    return std::is_integral<U>::value && !std::is_same<U, bool>::value ? (std::is_signed<U>::value ? "s" : "u") : "-";
}
static std::string hexof(void const *p, size_t n)
{
    std::string s;
    char b[4];
    for (size_t i = 0; i < n; ++i) { snprintf(b, sizeof(b), "%%02x", ((unsigned char const *)p)[i]); s += b; }
    return s;
}
template <class R, class... A> void fdesc(char const *name, R (*)(A...))
{
    std::string s;
    std::string parts[] = {cls<A>()..., std::string()};
    for (size_t i = 0; i < sizeof...(A); ++i) { s += " " + parts[i]; }
    printf("FN %%s %%zu ret %%s params%%s\n", name, sizeof...(A), cls<R>().c_str(), s.c_str());
}
#define FD(S, idx, f) printf("FD %%s %%d %%s %%zu %%zu %%s\n", #S, idx, #f, offsetof(a_##S, f), sizeof(((a_##S *)0)->f), cls<decltype(((a_##S *)0)->f)>().c_str())
int main()
{
'''


def gen_cxx(structs_c, fn_names, static_names, headers):
    inc = '\n'.join('#include "a/%s"' % h for h in headers)
    out = [CXX_PRELUDE % dict(includes=inc)]
    for s, fields in structs_c:
        out.append('    printf("ST %s %%zu %%zu %d\\n", sizeof(a_%s), alignof(a_%s));' % (s, len(fields), s, s))
        for i, f in enumerate(fields):
            out.append('    FD(%s, %d, %s);' % (s, i, f))
    for n in fn_names:
        out.append('    fdesc("%s", &%s);' % (n, n))
    for n in static_names:
        out.append('    printf("SV %s %%zu %%s %%zu %%s %%s\\n", sizeof(%s), cls<decltype(%s)>().c_str(), alignof(decltype(%s)), sgn<decltype(%s)>(), hexof(&%s, sizeof(%s)).c_str());'
                   % (n, n, n, n, n, n, n))
    out.append('    return 0;\n}\n')
    return '\n'.join(out)


# ------------------------------------------------------------------ Rust side
RUST_TRAIT = r'''
#[allow(warnings)]
pub mod verif_probe {
    use super::*;
    extern crate std as vstd;
    use self::vstd::string::String;
    use self::vstd::format;
    use self::vstd::println;
    use self::vstd::vec::Vec;
    pub trait Cls { fn cls() -> String; fn sgn() -> &'static str { "-" } }
    macro_rules! prim { ($($t:ty => $c:expr),*) => { $(impl Cls for $t { fn cls() -> String { format!("{}:{}", $c, core::mem::size_of::<$t>()) } })* } }
    macro_rules! primi { ($($t:ty => $s:expr),*) => { $(impl Cls for $t { fn cls() -> String { format!("int:{}", core::mem::size_of::<$t>()) } fn sgn() -> &'static str { $s } })* } }
    primi!(u8 => "u", u16 => "u", u32 => "u", u64 => "u", usize => "u", i8 => "s", i16 => "s", i32 => "s", i64 => "s", isize => "s");
    prim!(f32 => "float", f64 => "float", bool => "bool");
    pub fn hexof(p: *const u8, n: usize) -> String { let mut s = String::new(); for i in 0..n { s.push_str(&format!("{:02x}", unsafe { core::ptr::read_volatile(p.add(i)) })); } s }
    impl Cls for () { fn cls() -> String { String::from("void") } }
    impl<T> Cls for *const T { fn cls() -> String { format!("ptr:{}/{}", core::mem::size_of::<*const T>(), core::mem::size_of::<T>()) } }
    impl<T> Cls for *mut T { fn cls() -> String { format!("ptr:{}/{}", core::mem::size_of::<*mut T>(), core::mem::size_of::<T>()) } }
    impl<'a, T> Cls for &'a T { fn cls() -> String { format!("ptr:{}/{}", core::mem::size_of::<&T>(), core::mem::size_of::<T>()) } }
    impl<'a, T> Cls for &'a mut T { fn cls() -> String { format!("ptr:{}/{}", core::mem::size_of::<&mut T>(), core::mem::size_of::<T>()) } }
    impl<T: Cls, const N: usize> Cls for [T; N] { fn cls() -> String { format!("arr:{}*{}", N, T::cls()) } }
    macro_rules! fnptr { ($($($a:ident),* ;)*) => { $(
        impl<R, $($a),*> Cls for extern "C" fn($($a),*) -> R { fn cls() -> String { format!("ptr:{}/0", core::mem::size_of::<usize>()) } }
        impl<R, $($a),*> Cls for unsafe extern "C" fn($($a),*) -> R { fn cls() -> String { format!("ptr:{}/0", core::mem::size_of::<usize>()) } }
        impl<R, $($a),*> Cls for Option<extern "C" fn($($a),*) -> R> { fn cls() -> String { format!("ptr:{}/0", core::mem::size_of::<usize>()) } }
        impl<R, $($a),*> Cls for Option<unsafe extern "C" fn($($a),*) -> R> { fn cls() -> String { format!("ptr:{}/0", core::mem::size_of::<usize>()) } }
    )* } }
    fnptr!(; A1; A1, A2; A1, A2, A3; A1, A2, A3, A4; A1, A2, A3, A4, A5; A1, A2, A3, A4, A5, A6;);
'''


def gen_rust(structs, fns, statics, xfer_structs, cfields, decl_only=False, real=8, twin=None):
    if decl_only:
        # fallback when the binding itself no longer compiles (e.g. a foreign declaration was changed but not its callers):
        # only the mirrored struct definitions and the foreign declarations, copied as text
        pre = ['#![allow(warnings)]', 'pub type real = %s;' % ('f32' if real == 4 else 'f64'), 'use core::ffi::{c_int, c_uint};',
               'use core::mem::size_of;']
        pre += [st['text'] for st in structs]
        o = ['\n'.join(pre), RUST_TRAIT]
    else:
        o = [RUST_TRAIT]
    for s in structs:
        o.append('    impl Cls for %s { fn cls() -> String { format!("agg:{}", core::mem::size_of::<%s>()) } }' % (s['name'], s['name']))
    # the binding's own declaration text, re-declared (so private items of nested modules are reachable too)
    o.append('    extern "C" {')
    for f in fns:
        o.append('        #[link_name = "%s"] fn vp_%s(%s)%s;' % (f['name'], f['name'], ', '.join('%s: %s' % p for p in f['params']),
                                                               '' if f['ret'] == '()' else ' -> ' + f['ret']))
    for s in statics:
        o.append('        #[link_name = "%s"] static vp_%s: %s;' % (s['name'], s['name'], s['ty']))
    for s in ([] if decl_only else xfer_structs):
        o.append('        fn vfc_read_%s(p: *const u8, out: *mut u8);' % s)
        o.append('        fn vfc_write_%s(p: *mut u8);' % s)
    if not decl_only:
        o.append(CALLS_EXTERN)
        if twin:
            o.append(TWIN_EXTERN)
    o.append('    }')
    o.append('    pub fn tables() {')
    for s in structs:
        n = s['name']
        o.append('        println!("ST %s {} {} %d", core::mem::size_of::<%s>(), core::mem::align_of::<%s>());' % (n, len(s['fields']), n, n))
        for i, (fn_, ty) in enumerate(s['fields']):
            o.append('        println!("FD %s %d %s {} {} {}", core::mem::offset_of!(%s, %s), core::mem::size_of::<%s>(), <%s as Cls>::cls());'
                     % (n, i, fn_, n, fn_, ty, ty))
    for f in fns:
        ps = ''.join(' {}' for _ in f['params'])
        args = ''.join(', <%s as Cls>::cls()' % p[1] for p in f['params'])
        o.append('        println!("FN %s %d ret {} params%s", <%s as Cls>::cls()%s);' % (f['name'], len(f['params']), ps, f['ret'], args))
        if not decl_only:
            o.append('        println!("AD %s {}", (vp_%s as usize) != 0);' % (f['name'], f['name']))
    for s in statics:
        # size, class, alignment, signedness of the declared Rust type; the object's bytes as the binding sees them (not in the declarations-only fallback: nothing is linked there)
        o.append('        println!("SV %s {} {} {} {} {}", core::mem::size_of::<%s>(), <%s as Cls>::cls(), core::mem::align_of::<%s>(), <%s as Cls>::sgn(), %s);' % (
            s['name'], s['ty'], s['ty'], s['ty'], s['ty'],
            '"?"' if decl_only else 'hexof(unsafe { core::ptr::addr_of!(vp_%s) as *const u8 }, core::mem::size_of::<%s>())' % (s['name'], s['ty'])))
        if not decl_only:
            o.append('        println!("AD %s {}", unsafe { core::ptr::addr_of!(vp_%s) as usize } != 0);' % (s['name'], s['name']))
    o.append('    }')
    if decl_only:
        o.append('}')
        o.append('fn main() { verif_probe::tables(); }')
        return '\n'.join(o)
    # cross-boundary transfer
    o.append('    pub fn transfer() { unsafe {')
    for s in structs:
        n = s['name']
        if n not in xfer_structs:
            continue
        o.append('        {')
        o.append('            let lay = vstd::alloc::Layout::new::<%s>();' % n)
        o.append('            let p = vstd::alloc::alloc(lay);')
        o.append('            let sz = core::mem::size_of::<%s>();' % n)
        o.append('            for i in 0..sz { *p.add(i) = ((i * 37 + 11) & 0xFF) as u8; }')
        o.append('            let mut cbuf: Vec<u8> = vstd::vec![0u8; 4096]; let mut rbuf: Vec<u8> = Vec::new();')
        o.append('            println!("XFER-BEGIN %s rust-to-c");' % n)
        o.append('            vfc_read_%s(p, cbuf.as_mut_ptr());' % n)
        for (fn_, ty) in s['fields']:
            o.append('            { let off = core::mem::offset_of!(%s, %s); let fs = core::mem::size_of::<%s>(); for j in 0..fs { rbuf.push(*p.add(off + j)); } }' % (n, fn_, ty))
        o.append('            let ok = rbuf.len() <= 4096 && rbuf[..] == cbuf[..rbuf.len()];')
        o.append('            println!("XFER %s rust-to-c {} {}", if ok { "ok" } else { "MISMATCH" }, rbuf.len());' % n)
        o.append('            println!("XFER-BEGIN %s c-to-rust");' % n)
        o.append('            for i in 0..sz { *p.add(i) = 0; }')
        o.append('            vfc_write_%s(p);' % n)
        o.append('            let mut bad: i64 = -1;')
        for k, (fn_, ty) in enumerate(s['fields']):
            o.append('            { let off = core::mem::offset_of!(%s, %s); let fs = core::mem::size_of::<%s>(); for j in 0..fs { if *p.add(off + j) != ((17 * (%d + 1) + j) & 0xFF) as u8 && bad < 0 { bad = %d; } } }'
                     % (n, fn_, ty, k, k))
        o.append('            println!("XFER %s c-to-rust {} {}", if bad < 0 { "ok" } else { "MISMATCH" }, bad);' % n)
        o.append('            vstd::alloc::dealloc(p, lay);')
        o.append('        }')
    o.append('    } }')
    o.append(CALLS_RUST)
    if twin:
        o.append(gen_fields(structs))
        o.append(twin)
        o.append('}')
        o.append('fn main() { verif_probe::tables(); verif_probe::transfer(); verif_probe::calls();\n'
                 '    let a: Vec<String> = std::env::args().collect();\n'
                 '    let seed: u64 = a.get(1).and_then(|x| x.parse().ok()).unwrap_or(1);\n'
                 '    let nhist: usize = a.get(2).and_then(|x| x.parse().ok()).unwrap_or(10);\n'
                 '    verif_probe::equiv(seed, nhist); }')
        return '\n'.join(o)
    o.append('}')
    o.append('fn main() { verif_probe::tables(); verif_probe::transfer(); verif_probe::calls(); }')
    return '\n'.join(o)


def gen_c_helper(xfer, cfields, headers, twin=True):
    o = ['#include <string.h>', '#include <stddef.h>'] + ['#include "a/%s"' % h for h in headers]
    for s in xfer:
        fl = cfields[s]
        o.append('void vfc_read_%s(struct a_%s const *p, unsigned char *out)\n{' % (s, s))
        for f in fl:
            o.append('    memcpy(out, &p->%s, sizeof(p->%s)); out += sizeof(p->%s);' % (f, f, f))
        o.append('}')
        o.append('void vfc_write_%s(struct a_%s *p)\n{\n    unsigned char *b;\n    size_t j;' % (s, s))
        for k, f in enumerate(fl):
            o.append('    b = (unsigned char *)&p->%s; for (j = 0; j < sizeof(p->%s); ++j) { b[j] = (unsigned char)(17 * (%d + 1) + j); }' % (f, f, k))
        o.append('}')
    o.append(CALLS_C)
    if twin:
        o.append(TWIN_C)
    return '\n'.join(o) + '\n'


# reference computations in C with trivially-typed interfaces (scalars only)
CALLS_C = r'''
#include "a/pid.h"
#include "a/tf.h"
#include "a/trajtrap.h"
#include "a/trajbell.h"
#include "a/trajpoly3.h"
#include "a/trajpoly5.h"
#include "a/trajpoly7.h"
#include "a/regress_simple.h"
#include "a/math.h"
a_real vfc_pid(a_real kp, a_real ki, a_real kd, a_real set, int n, int mode)
{
    a_pid c;
    a_real fdb = 0, out = 0;
    int i;
    c.summax = +A_REAL_INF; c.summin = -A_REAL_INF; c.outmax = +A_REAL_INF; c.outmin = -A_REAL_INF;
    a_pid_set_kpid(&c, kp, ki, kd);
    a_pid_init(&c);
    for (i = 0; i < n; ++i)
    {
        out = mode ? a_pid_inc(&c, set, fdb) : a_pid_pos(&c, set, fdb);
        fdb = fdb * A_REAL_C(0.5) + out * A_REAL_C(0.25);
    }
    return out;
}
a_real vfc_tf(int n)
{
    a_real num[2] = {A_REAL_C(6.59492796e-05), A_REAL_C(6.54019884e-05)}, den[2] = {A_REAL_C(-1.97530991), A_REAL_C(0.97530991)};
    a_real in[2], outb[2], y = 0;
    a_tf c;
    int i;
    a_tf_init(&c, 2, num, in, 2, den, outb);
    for (i = 0; i < n; ++i) { y = a_tf_iter(&c, A_REAL_C(1.0)); }
    return y;
}
a_real vfc_trajtrap(int what)
{
    a_trajtrap c;
    a_real t = a_trajtrap_gen(&c, 2, 2, -2, 0, 4, 0, 0);
    return what == 0 ? t : what == 1 ? a_trajtrap_pos(&c, t / 3) : what == 2 ? a_trajtrap_vel(&c, t / 3) : a_trajtrap_acc(&c, t / 3);
}
a_real vfc_trajbell(int what)
{
    a_trajbell c;
    a_real t = a_trajbell_gen(&c, 3, 2, 3, 0, 10, 0, 0);
    return what == 0 ? t : what == 1 ? a_trajbell_pos(&c, t / 3) : what == 2 ? a_trajbell_vel(&c, t / 3) : what == 3 ? a_trajbell_acc(&c, t / 3) : a_trajbell_jer(&c, t / 3);
}
a_real vfc_trajpoly(int order, int what)
{
    if (order == 3) { a_trajpoly3 c; a_trajpoly3_gen(&c, 2, 1, 5, A_REAL_C(0.5), A_REAL_C(-0.25)); return what == 0 ? a_trajpoly3_pos(&c, 1) : what == 1 ? a_trajpoly3_vel(&c, 1) : a_trajpoly3_acc(&c, 1); }
    if (order == 5) { a_trajpoly5 c; a_trajpoly5_gen(&c, 2, 1, 5, A_REAL_C(0.5), A_REAL_C(-0.25), A_REAL_C(0.125), -1); return what == 0 ? a_trajpoly5_pos(&c, 1) : what == 1 ? a_trajpoly5_vel(&c, 1) : a_trajpoly5_acc(&c, 1); }
    { a_trajpoly7 c; a_trajpoly7_gen(&c, 2, 1, 5, A_REAL_C(0.5), A_REAL_C(-0.25), A_REAL_C(0.125), -1, 2, -3); return what == 0 ? a_trajpoly7_pos(&c, 1) : what == 1 ? a_trajpoly7_vel(&c, 1) : what == 2 ? a_trajpoly7_acc(&c, 1) : a_trajpoly7_jer(&c, 1); }
}
a_real vfc_regress(int what)
{
    a_real x[5] = {0, 1, 2, 3, 5}, y[5] = {1, A_REAL_C(2.5), 5, 7, A_REAL_C(11.5)};
    a_regress_simple c;
    a_regress_simple_init(&c, 0, 0);
    a_regress_simple_ols(&c, 5, x, y);
    return what == 0 ? c.coef : what == 1 ? c.bias : a_regress_simple_eval(&c, 4);
}
'''
CALLS_EXTERN = '''
        fn vfc_pid(kp: real, ki: real, kd: real, set: real, n: i32, mode: i32) -> real;
        fn vfc_tf(n: i32) -> real;
        fn vfc_trajtrap(what: i32) -> real;
        fn vfc_trajbell(what: i32) -> real;
        fn vfc_trajpoly(order: i32, what: i32) -> real;
        fn vfc_regress(what: i32) -> real;
'''
CALLS_RUST = r'''
    fn same(tag: &str, a: real, b: real) {
        println!("CALL {} {} rust={:e} c={:e}", tag, if a.to_bits() == b.to_bits() { "ok" } else { "MISMATCH" }, a, b);
    }
    pub fn calls() { unsafe {
        // CRC known answers ("123456789")
        let msg = b"123456789";
        println!("CALL crc8 {} {:#x}", if crc8::new_msb(0x07).eval(msg, 0) == 0xF4 { "ok" } else { "MISMATCH" }, crc8::new_msb(0x07).eval(msg, 0));
        println!("CALL crc16 {} {:#x}", if crc16::new_lsb(0x8005).eval(msg, 0) == 0xBB3D { "ok" } else { "MISMATCH" }, crc16::new_lsb(0x8005).eval(msg, 0));
        println!("CALL crc32 {} {:#x}", if !crc32::new_lsb(0x04C11DB7).eval(msg, 0xFFFFFFFF) == 0xCBF43926 { "ok" } else { "MISMATCH" }, !crc32::new_lsb(0x04C11DB7).eval(msg, 0xFFFFFFFF));
        println!("CALL crc64 {} {:#x}", if crc64::new_msb(0x42F0E1EBA9EA3693).eval(msg, 0) == 0x6C40DF5F0B497347 { "ok" } else { "MISMATCH" }, crc64::new_msb(0x42F0E1EBA9EA3693).eval(msg, 0));
        // pid through the binding vs the same loop in C
        for mode in 0..2 {
            let mut c = pid::new();
            c.set_kpid(10.0, 0.1, 1.0);
            let mut fdb: real = 0.0; let mut out: real = 0.0;
            for _ in 0..20 { out = if mode == 1 { c.inc(1.0, fdb) } else { c.pos(1.0, fdb) }; fdb = fdb * 0.5 + out * 0.25; }
            same(if mode == 1 { "pid-inc" } else { "pid-pos" }, out, vfc_pid(10.0, 0.1, 1.0, 1.0, 20, mode));
        }
        {
            let num: [real; 2] = [6.59492796e-05, 6.54019884e-05]; let den: [real; 2] = [-1.97530991, 0.97530991];
            let mut inp: [real; 2] = [0.0; 2]; let mut outp: [real; 2] = [0.0; 2];
            let mut t = tf::new(&num, &mut inp, &den, &mut outp);
            let mut y: real = 0.0;
            for _ in 0..50 { y = t.iter(1.0); }
            same("tf-iter", y, vfc_tf(50));
        }
        {
            let mut t = trajtrap::new();
            let d = t.gen(2.0, 2.0, -2.0, 0.0, 4.0, 0.0, 0.0);
            same("trajtrap-gen", d, vfc_trajtrap(0));
            same("trajtrap-pos", t.pos(d / 3.0), vfc_trajtrap(1));
            same("trajtrap-vel", t.vel(d / 3.0), vfc_trajtrap(2));
            same("trajtrap-acc", t.acc(d / 3.0), vfc_trajtrap(3));
        }
        {
            let mut t = trajbell::new();
            let d = t.gen(3.0, 2.0, 3.0, 0.0, 10.0, 0.0, 0.0);
            same("trajbell-gen", d, vfc_trajbell(0));
            same("trajbell-pos", t.pos(d / 3.0), vfc_trajbell(1));
            same("trajbell-vel", t.vel(d / 3.0), vfc_trajbell(2));
            same("trajbell-acc", t.acc(d / 3.0), vfc_trajbell(3));
            same("trajbell-jer", t.jer(d / 3.0), vfc_trajbell(4));
        }
        {
            let t = trajpoly3::new(2.0, 1.0, 5.0, 0.5, -0.25);
            same("trajpoly3-pos", t.pos(1.0), vfc_trajpoly(3, 0)); same("trajpoly3-vel", t.vel(1.0), vfc_trajpoly(3, 1)); same("trajpoly3-acc", t.acc(1.0), vfc_trajpoly(3, 2));
            let t = trajpoly5::new(2.0, 1.0, 5.0, 0.5, -0.25, 0.125, -1.0);
            same("trajpoly5-pos", t.pos(1.0), vfc_trajpoly(5, 0)); same("trajpoly5-vel", t.vel(1.0), vfc_trajpoly(5, 1)); same("trajpoly5-acc", t.acc(1.0), vfc_trajpoly(5, 2));
            let t = trajpoly7::new(2.0, 1.0, 5.0, 0.5, -0.25, 0.125, -1.0, 2.0, -3.0);
            same("trajpoly7-pos", t.pos(1.0), vfc_trajpoly(7, 0)); same("trajpoly7-vel", t.vel(1.0), vfc_trajpoly(7, 1)); same("trajpoly7-acc", t.acc(1.0), vfc_trajpoly(7, 2)); same("trajpoly7-jer", t.jer(1.0), vfc_trajpoly(7, 3));
        }
        {
            let x: [real; 5] = [0.0, 1.0, 2.0, 3.0, 5.0]; let y: [real; 5] = [1.0, 2.5, 5.0, 7.0, 11.5];
            let mut c = regress_simple::new(0.0, 0.0);
            c.ols(&x, &y);
            same("regress_simple-coef", c.coef, vfc_regress(0)); same("regress_simple-bias", c.bias, vfc_regress(1)); same("regress_simple-eval", c.eval(4.0), vfc_regress(2));
        }
        {
            let rc = version::check(version::major(), version::minor(), version::patch());
            println!("CALL version-check {} {}", if rc == 0 { "ok" } else { "MISMATCH" }, rc);
            let mut v = version::new(0, 0, 0);
            let n = v.parse("1.2.3");
            println!("CALL version-parse {} {} {} {} {}", if v.major == 1 && v.minor == 2 && v.third == 3 { "ok" } else { "MISMATCH" }, n, v.major, v.minor, v.third);
        }
    } }
'''


# ------------------------------------------------------------------ wrapper-equivalence monitor (twin execution)
# C side of the twins that have no exported function: inline functions (hpf, lpf), initialisation macros and the
# documented initialisation sequences of the constructors, enum values, the version constants.
TWIN_C = r"""
#include <string.h>
#include "a/hpf.h"
#include "a/lpf.h"
#include "a/mf.h"
#include "a/pid.h"
#include "a/pid_fuzzy.h"
#include "a/pid_neuro.h"
#include "a/regress_linear.h"
#include "a/regress_simple.h"
#include "a/version.h"
void vft_zero(void *p, size_t n) { memset(p, 0, n); }
void vft_hpf_new(a_hpf *c, a_real fc, a_real ts) { a_hpf_init(c, a_hpf_gen(fc, ts)); }
void vft_hpf_gen(a_hpf *c, a_real fc, a_real ts) { c->alpha = a_hpf_gen(fc, ts); }
a_real vft_hpf_iter(a_hpf *c, a_real x) { return a_hpf_iter(c, x); }
void vft_hpf_zero(a_hpf *c) { a_hpf_zero(c); }
void vft_lpf_new(a_lpf *c, a_real fc, a_real ts) { a_lpf_init(c, a_lpf_gen(fc, ts)); }
void vft_lpf_gen(a_lpf *c, a_real fc, a_real ts) { c->alpha = a_lpf_gen(fc, ts); }
a_real vft_lpf_iter(a_lpf *c, a_real x) { return a_lpf_iter(c, x); }
void vft_lpf_zero(a_lpf *c) { a_lpf_zero(c); }
static void vft_pid_defaults(a_pid *c)
{
    c->kp = 0; c->ki = 0; c->kd = 0;
    c->summax = +A_REAL_INF; c->summin = -A_REAL_INF; c->outmax = +A_REAL_INF; c->outmin = -A_REAL_INF;
}
void vft_pid_new(a_pid *c) { vft_pid_defaults(c); a_pid_init(c); }
void vft_pid_fuzzy_new(a_pid_fuzzy *c)
{
    vft_pid_defaults(&c->pid);
    c->me = 0; c->mec = 0; c->mkp = 0; c->mki = 0; c->mkd = 0; c->idx = 0; c->val = 0;
    c->opr = a_pid_fuzzy_opr(A_PID_FUZZY_EQU);
    c->kp = 0; c->ki = 0; c->kd = 0; c->nrule = 0; c->nfuzz = 0;
    a_pid_fuzzy_init(c);
}
void vft_pid_neuro_new(a_pid_neuro *c)
{
    vft_pid_defaults(&c->pid);
    c->k = 0; c->wp = 0; c->wi = 0; c->wd = 0;
    a_pid_neuro_init(c);
}
size_t vft_pid_fuzzy_bfuzz_size(size_t n) { return A_PID_FUZZY_BFUZZ(n); }
void vft_regress_simple_new(a_regress_simple *c, a_real coef, a_real bias) { a_regress_simple_init(c, coef, bias); }
void vft_regress_linear_new(a_regress_linear *c, a_real *p, size_t n, a_real bias) { a_regress_linear_init(c, p, n, bias); }
void vft_regress_linear_set_coef(a_regress_linear *c, a_real *p, size_t n) { a_regress_linear_init(c, p, n, c->bias); }
void vft_tf_new(a_tf *c, unsigned nn, a_real const *np, a_real *in, unsigned dn, a_real const *dp, a_real *out) { a_tf_init(c, nn, np, in, dn, dp, out); }
void vft_trajpoly3_new(a_trajpoly3 *c, a_real ts, a_real p0, a_real p1, a_real v0, a_real v1) { a_trajpoly3_gen(c, ts, p0, p1, v0, v1); }
void vft_trajpoly5_new(a_trajpoly5 *c, a_real ts, a_real p0, a_real p1, a_real v0, a_real v1, a_real a0, a_real a1) { a_trajpoly5_gen(c, ts, p0, p1, v0, v1, a0, a1); }
void vft_trajpoly7_new(a_trajpoly7 *c, a_real ts, a_real p0, a_real p1, a_real v0, a_real v1, a_real a0, a_real a1, a_real j0, a_real j1) { a_trajpoly7_gen(c, ts, p0, p1, v0, v1, a0, a1, j0, j1); }
void vft_version_new(a_version *c, unsigned major, unsigned minor, unsigned third) { a_version v = A_VERSION_3(major, minor, third); *c = v; }
unsigned vft_version_lib(int i) { return i == 0 ? a_version_major : i == 1 ? a_version_minor : i == 2 ? a_version_patch : (unsigned)a_version_tweak; }
int vft_const(int i)
{
    switch (i)
    {
    case 0: return A_MF_NUL; case 1: return A_MF_GAUSS; case 2: return A_MF_GAUSS2; case 3: return A_MF_GBELL; case 4: return A_MF_SIG;
    case 5: return A_MF_DSIG; case 6: return A_MF_PSIG; case 7: return A_MF_TRAP; case 8: return A_MF_TRI; case 9: return A_MF_LINS;
    case 10: return A_MF_LINZ; case 11: return A_MF_S; case 12: return A_MF_Z; case 13: return A_MF_PI;
    case 20: return A_PID_FUZZY_CAP; case 21: return A_PID_FUZZY_CAP_ALGEBRA; case 22: return A_PID_FUZZY_CAP_BOUNDED; case 23: return A_PID_FUZZY_CUP;
    case 24: return A_PID_FUZZY_CUP_ALGEBRA; case 25: return A_PID_FUZZY_CUP_BOUNDED; case 26: return A_PID_FUZZY_EQU;
    default: return -12345;
    }
}
"""
TWIN_EXTERN = """
        fn vft_zero(p: *mut u8, n: usize);
        fn vft_hpf_new(c: *mut u8, fc: real, ts: real);
        fn vft_hpf_gen(c: *mut u8, fc: real, ts: real);
        fn vft_hpf_iter(c: *mut u8, x: real) -> real;
        fn vft_hpf_zero(c: *mut u8);
        fn vft_lpf_new(c: *mut u8, fc: real, ts: real);
        fn vft_lpf_gen(c: *mut u8, fc: real, ts: real);
        fn vft_lpf_iter(c: *mut u8, x: real) -> real;
        fn vft_lpf_zero(c: *mut u8);
        fn vft_pid_new(c: *mut u8);
        fn vft_pid_fuzzy_new(c: *mut u8);
        fn vft_pid_neuro_new(c: *mut u8);
        fn vft_pid_fuzzy_bfuzz_size(n: usize) -> usize;
        fn vft_regress_simple_new(c: *mut u8, coef: real, bias: real);
        fn vft_regress_linear_new(c: *mut u8, p: *mut real, n: usize, bias: real);
        fn vft_regress_linear_set_coef(c: *mut u8, p: *mut real, n: usize);
        fn vft_tf_new(c: *mut u8, nn: c_uint, np: *const real, inp: *mut real, dn: c_uint, dp: *const real, out: *mut real);
        fn vft_trajpoly3_new(c: *mut u8, ts: real, p0: real, p1: real, v0: real, v1: real);
        fn vft_trajpoly5_new(c: *mut u8, ts: real, p0: real, p1: real, v0: real, v1: real, a0: real, a1: real);
        fn vft_trajpoly7_new(c: *mut u8, ts: real, p0: real, p1: real, v0: real, v1: real, a0: real, a1: real, j0: real, j1: real);
        fn vft_version_new(c: *mut u8, major: c_uint, minor: c_uint, third: c_uint);
        fn vft_version_lib(i: c_int) -> c_uint;
        fn vft_const(i: c_int) -> c_int;
"""


def enumerate_api(text):
    """every `pub fn` (free, in a `pub mod`, in an inherent impl), every fn of a trait impl, and every `pub const` of a module,
    found by walking the brace structure of the comment-stripped source. Returns {name: kind}."""
    src = strip_comments(text)
    # neutralise string/char literals so that braces inside them are not structure
    src = re.sub(r'b?"(?:\\.|[^"\\])*"', '""', src)
    src = re.sub(r"b?'(?:\\.|[^'\\])'", "' '", src)
    out = {}
    stack = [('root', '')]
    head = ''
    pd = 0  # depth of ( and [ : a ';' inside `[real; 4]` does not end an item
    for ch in src:
        if ch in '([':
            pd += 1
        elif ch in ')]':
            pd -= 1
        if ch == '{':
            h = re.sub(r'#\[[^\]]*\]', ' ', head)
            h = ' '.join(h.split())
            ctx = ('other', '')
            m = re.search(r'(?:^|\s)(pub(?:\([^)]*\))?\s+)?mod\s+(\w+)$', h)
            mi = re.search(r'(?:^|\s)impl(?:<[^>]*>)?\s+(?:([\w:]+)\s+for\s+)?(\w+)$', h)
            mf = re.search(r'(?:^|\s)(pub(?:\([^)]*\))?\s+)?(?:const\s+|unsafe\s+|extern\s+""\s+)*fn\s+(\w+)\s*[<(]', h)
            if re.search(r'extern\s+""$', h):
                ctx = ('extern', '')
            elif mf:
                kind, owner = stack[-1]
                name, is_pub = mf.group(2), bool(mf.group(1))
                if kind == 'root' and is_pub:
                    out[name] = 'fn'
                elif kind == 'mod' and is_pub:
                    out[owner + '::' + name] = 'fn'
                elif kind == 'impl' and is_pub:
                    out[owner + '::' + name] = 'fn'
                elif kind == 'trait-impl':
                    out[owner + '::' + name] = 'trait-fn'
                ctx = ('fn', name)
            elif mi:
                ctx = ('trait-impl', mi.group(2)) if mi.group(1) else ('impl', mi.group(2))
            elif m:
                ctx = ('mod', (stack[-1][1] + '::' if stack[-1][0] == 'mod' else '') + m.group(2))
            stack.append(ctx)
            head = ''
        elif ch == '}':
            if len(stack) > 1:
                stack.pop()
            head = ''
        elif ch == ';' and pd == 0:
            h = ' '.join(re.sub(r'#\[[^\]]*\]', ' ', head).split())
            mc = re.match(r'pub(?:\([^)]*\))?\s+const\s+(\w+)\s*:', h)
            if mc and stack[-1][0] == 'mod':
                out[stack[-1][1] + '::' + mc.group(1)] = 'const'
            head = ''
        else:
            head += ch
    return out


def gen_fields(structs):
    """trait Fields: the bytes of every field in declaration order (padding excluded); real fields with all NaNs made equal"""
    names = set(s['name'] for s in structs)
    # niche(): bit patterns that are INVALID for the declared Rust type although the C type admits them (a null in a field declared `extern "C" fn`, a bool byte above 1): the
    # C definition and the mirror then agree in size, offset and machine type, yet a value the library writes is not "read identically" by Rust - it is the niche rustc uses
    # for Option<struct> (seeded change C20-N: a_pid_fuzzy_set_opr stores NULL for the default operator; Some(controller) reads back as None)
    o = ['    pub trait Fields { unsafe fn fb(p: *const Self, out: &mut Vec<u64>); unsafe fn niche(_p: *const Self) -> Option<&\'static str> { None } }',
         '    pub unsafe fn raw(p: *const u8, n: usize, out: &mut Vec<u64>) { let mut i = 0usize; while i + 8 <= n { out.push(core::ptr::read_unaligned(p.add(i) as *const u64)); i += 8; } '
         'let mut t: u64 = 0; let mut k = 0; while i < n { t |= (*p.add(i) as u64) << (8 * k); i += 1; k += 1; } if k > 0 { out.push(t); } }']
    for s in structs:
        o.append('    impl Fields for %s { unsafe fn fb(p: *const Self, out: &mut Vec<u64>) {' % s['name'])
        for fn_, ty in s['fields']:
            if ty == 'real':
                o.append('        out.push(canon((*p).%s));' % fn_)
            elif re.match(r'\[\s*real\s*;\s*\w+\s*\]$', ty):
                o.append('        for x in (*p).%s.iter() { out.push(canon(*x)); }' % fn_)
            elif ty in names:
                o.append('        <%s as Fields>::fb(core::ptr::addr_of!((*p).%s), out);' % (ty, fn_))
            else:
                o.append('        raw(core::ptr::addr_of!((*p).%s) as *const u8, core::mem::size_of::<%s>(), out);' % (fn_, ty))
        o.append('    }')
        o.append('    unsafe fn niche(p: *const Self) -> Option<&\'static str> {')
        for fn_, ty in s['fields']:
            t = ty.strip()
            if re.match(r'(unsafe\s+)?extern\s+"C"\s+fn\b', t) or t.startswith('&') or t.startswith('NonNull<') or t.startswith('core::ptr::NonNull<'):
                o.append('        if core::ptr::read_unaligned(core::ptr::addr_of!((*p).%s) as *const usize) == 0 { return Some("%s"); }' % (fn_, fn_))
            elif t == 'bool':
                o.append('        if core::ptr::read_unaligned(core::ptr::addr_of!((*p).%s) as *const u8) > 1 { return Some("%s"); }' % (fn_, fn_))
            elif t in names:
                o.append('        if let Some(f) = <%s as Fields>::niche(core::ptr::addr_of!((*p).%s)) { return Some(f); }' % (t, fn_))
        o.append('        None')
        o.append('    } }')
    return '\n'.join(o)



def classes_compatible(a, b):
    """ABI-level equality; pointee sizes are compared only when both are known and > 1"""
    if a == b:
        return True
    ma, mb = re.match(r'ptr:(\d+)/(\d+)$', a), re.match(r'ptr:(\d+)/(\d+)$', b)
    if ma and mb and ma.group(1) == mb.group(1):
        pa, pb = int(ma.group(2)), int(mb.group(2))
        return pa <= 1 or pb <= 1 or pa == pb
    ma, mb = re.match(r'arr:(\d+)\*(.*)$', a), re.match(r'arr:(\d+)\*(.*)$', b)
    if ma and mb and ma.group(1) == mb.group(1):
        return classes_compatible(ma.group(2), mb.group(2))
    return False


def parse_tables(text):
    st, fd, fn, sv, ad, xf, calls = {}, {}, {}, {}, {}, [], []
    for l in text.splitlines():
        p = l.split()
        if not p:
            continue
        if p[0] == 'ST':
            st[p[1]] = dict(size=int(p[2]), align=int(p[3]), nfields=int(p[4]))
        elif p[0] == 'FD':
            fd.setdefault(p[1], []).append(dict(idx=int(p[2]), name=p[3], off=int(p[4]), size=int(p[5]), cls=p[6]))
        elif p[0] == 'FN':
            fn[p[1]] = dict(arity=int(p[2]), ret=p[4], params=p[6:])
        elif p[0] == 'SV':
            sv[p[1]] = dict(size=int(p[2]), cls=p[3], align=int(p[4]) if len(p) > 4 else None, sgn=p[5] if len(p) > 5 else None, bytes=p[6] if len(p) > 6 else None)
        elif p[0] == 'AD':
            ad[p[1]] = p[2]
        elif p[0] in ('XFER', 'XFER-BEGIN'):
            xf.append(p)
        elif p[0] == 'CALL':
            calls.append(p)
    return st, fd, fn, sv, ad, xf, calls


ALIASES = {'alpha': 'alpha_', 'alpha_': 'alpha'}  # the one documented rename (version.alpha <-> a_version.alpha_)


def parse_build_rs(path):
    """What does build.rs tell the C compiler about the real width, with and without the `float` feature?
    Returns dict(cc={False: size, True: size}, cmake={False: size, True: size}) from the `make.define("A_SIZE_REAL", "N")` /
    `cmake.define("LIBA_REAL", "N")` statements and the #[cfg(feature = "float")] attribute in front of them; None if there is no
    build.rs next to src/ (scratch copies made before this was added)."""
    if not os.path.exists(path):
        return None
    src = strip_comments(open(path).read())
    out = dict(cc={False: 8, True: 8}, cmake={False: 8, True: 8})
    for kind, obj, name in (('cc', 'make', 'A_SIZE_REAL'), ('cmake', 'cmake', 'LIBA_REAL')):
        for m in re.finditer(r'((?:#\[cfg\([^\]]*\)\]\s*)*)%s\.define\(\s*"%s"\s*,\s*(?:Some\()?"(\d+)"\)?\s*\)' % (obj, name), src):
            attrs, val = m.group(1), int(m.group(2))
            if 'feature = "float"' in attrs and 'not(' not in attrs:
                out[kind][True] = val
            elif 'not(feature = "float")' in attrs:
                out[kind][False] = val
            elif not attrs.strip():
                out[kind][False] = out[kind][True] = val
    return out


NHIST = dict(quick=300, thorough=4000)  # histories per struct and real width


def feature_sets(brs_path):
    """[(tag, width of `real` in the binding, the -D flags build.rs (cc branch) passes to the C compiler for that feature set)] for the
    default feature set (f64) and the `float` feature (f32), read from the make.define(...) statements of build.rs and the
    #[cfg(feature = "float")] attributes in front of them."""
    brs = strip_comments(open(brs_path).read()) if os.path.exists(brs_path) else ''
    feats = []
    for float_on, tag, want in ((False, 'f64', 8), (True, 'f32', 4)):
        defs = []
        for m in re.finditer(r'((?:#\[cfg\([^\]]*\)\]\s*)*)make\.define\(\s*"(\w+)"\s*,\s*(?:Some\()?"?(\w+)"?\)?\s*\)', brs):
            attrs = m.group(1)
            on = True
            if 'not(feature = "float")' in attrs:
                on = not float_on
            elif 'feature = "float"' in attrs:
                on = float_on
            if on and m.group(2).startswith('A_'):
                defs.append('-D%s' % m.group(2) if m.group(3) == 'None' else '-D%s=%s' % (m.group(2), m.group(3)))
        feats.append((tag, want, defs))
    return feats


def cmake_arm(ctx, outdir, viols, stats):
    """build.rs has a second arm (feature `cmake`): it hands LIBA_REAL = 8 / 4 to the repository's CMake project, which writes the real width into a generated
    configuration header (include/a.cmake.h.in -> a.cmake.h) that every source file includes through A_HAVE_H. That header is produced by CMake's
    configure_file, not by the C preprocessor, so nothing else in this check ever sees it. Here CMake itself instantiates the template (configure step
    only, a few seconds, both widths in parallel) and a probe compiled against the GENERATED header is executed: sizeof(a_real) must be the width the binding
    uses for that feature set (seeded change C20-L: `#define A_SIZE_REAL @A_SIZE_REAL@` rewritten as `#cmakedefine`, which is gated on a CMake variable of
    the macro's own name - the project's is LIBA_REAL - and leaves the macro undefined: the float binding meets a double library)."""
    REPO = ctx['REPO']
    info = stats.setdefault('cmake_arm', dict(ran=False))
    if not os.path.exists(os.path.join(REPO, 'CMakeLists.txt')) or not os.path.exists(os.path.join(REPO, 'include', 'a.cmake.h.in')) or sh(['cmake', '--version']).returncode:
        info['reason'] = 'no CMakeLists.txt / template / cmake next to the sources under test'
        return
    odir = os.path.join(outdir, 'cmake-arm')
    os.makedirs(odir, exist_ok=True)
    probe = os.path.join(odir, 'real.c')
    with open(probe, 'w') as f:
        f.write('#include <stdio.h>\n#include "a/a.h"\nint main(void) { printf("%zu\\n", sizeof(a_real)); return 0; }\n')

    def one(real):
        b = os.path.join(odir, 'b%d' % real)
        shutil.rmtree(b, ignore_errors=True)
        # the configure step may end in an error further down (scratch copies carry only src/, include/, CMakeLists.txt, cmake/): the header is written before
        sh(['cmake', '-S', REPO, '-B', b, '-G', 'Ninja', '-DLIBA_REAL=%d' % real, '-DBUILD_TESTING=OFF'])
        hdr = os.path.join(b, 'a.cmake.h')
        if not os.path.exists(hdr):
            return real, None, 'CMake did not write a.cmake.h'
        exe = os.path.join(odir, 'real%d' % real)
        r = sh(['gcc', '-O0', '-I' + os.path.join(REPO, 'include'), '-DA_HAVE_H="%s"' % hdr, probe, '-o', exe])
        if r.returncode:
            return real, None, 'probe does not compile against the generated header: ' + r.stdout[-300:]
        rr = sh([exe])
        return real, (int(rr.stdout.strip()) if rr.returncode == 0 and rr.stdout.strip().isdigit() else None), ''
    from concurrent.futures import ThreadPoolExecutor
    with ThreadPoolExecutor(max_workers=2) as ex:
        res = list(ex.map(one, (8, 4)))
    info['ran'] = True
    info['measured'] = {}
    for real, got, why in res:
        tag = 'f64' if real == 8 else 'f32'
        if got is None:
            info['measured'][tag] = 'not measured: ' + why
            continue
        info['measured'][tag] = got
        stats['evaluations'] += 1
        stats['distinct'].add(('cmake-arm', real))
        if got != real:
            viols.append(dict(key='abi/build.rs/cmake-arm/c-real-width-differs-from-binding', config=tag,
                              msg='CMake configured with LIBA_REAL=%d (what build.rs passes for the %s binding under the `cmake` feature) generates a configuration header under which sizeof(a_real) is %d'
                                  % (real, tag, got)))


def simulated_targets(ctx, outdir, viols, stats, brs_path):
    """The headers may consult macros that the COMPILER predefines for its target (architecture, FPU, ABI) - none of which a run on
    this host ever varies. For every such macro that the public headers test in a preprocessor conditional and that this host's gcc
    does not define, the layout probe below (sizes and alignments of the scalar typedefs and of every public struct, as the C
    compiler sees them for the flags build.rs passes) is compiled and EXECUTED again with the macro defined to each integer literal
    it is compared with in the headers (and to 1), and its output is compared with the host's: the binding fixes `real` = f64 / f32
    per feature set and mirrors the structs once, so a header that silently changes a type for some target leaves every Rust mirror
    wrong there (seeded change C20-J: a_real defaults to float when __ARM_FP / __riscv_flen say the FPU is single-precision only).
    A simulated macro under which the headers no longer compile on this host (_MSC_VER, _WIN32 ...) is skipped and counted."""
    REPO = ctx['REPO']
    inc_dir = os.path.join(REPO, 'include', 'a')
    headers = sorted(h for h in os.listdir(inc_dir) if h.endswith('.h'))
    text = {h: open(os.path.join(inc_dir, h), errors='replace').read().replace('\\\n', ' ') for h in headers}
    host = set(re.findall(r'#define (\w+)', sh(['gcc', '-dM', '-E', '-x', 'c', '/dev/null']).stdout))
    cand = {}
    for h in headers:
        for ln in text[h].splitlines():
            m = re.match(r'\s*#\s*(if|elif|ifdef|ifndef)\b(.*)', ln)
            if not m:
                continue
            rest = re.sub(r'__has_\w+\s*\([^)]*\)', ' ', strip_comments(m.group(2)))
            lits = set(int(x, 0) for x in re.findall(r'\b(0[xX][0-9a-fA-F]+|\d+)[uUlL]*\b', rest))
            for name in set(re.findall(r'\b(__\w+|_[A-Z]\w*)\b', rest)):
                if name in host or name.startswith('__has_') or name in ('__cplusplus', '__STDC_VERSION__', '__STDC__', '__FILE__', '__LINE__', '__VA_ARGS__', '_Pragma'):
                    continue
                cand.setdefault(name, set()).update(lits | {1})
    odir = os.path.join(outdir, 'simulated-targets')
    os.makedirs(odir, exist_ok=True)
    alltext = ''.join(text.values())
    structs = sorted(set(re.findall(r'\bstruct\s+(a_\w+)\s*\{', alltext)))
    scalars = ['a_real', 'a_size', 'a_diff', 'a_int', 'a_uint', 'a_bool', 'a_byte', 'a_u8', 'a_u16', 'a_u32', 'a_u64', 'a_i8', 'a_i16', 'a_i32', 'a_i64', 'a_f32', 'a_f64', 'a_vptr', 'a_str', 'a_imax', 'a_umax', 'a_iptr', 'a_uptr']
    scalars = [t for t in scalars if re.search(r'\b%s\b' % t, text.get('a.h', ''))]
    src = os.path.join(odir, 'layout.c')
    with open(src, 'w') as f:
        f.write('#include <stdio.h>\n' + ''.join('#include "a/%s"\n' % h for h in headers))
        f.write('int main(void)\n{\n')
        for t in scalars:
            f.write('    printf("%s %%zu %%zu\\n", sizeof(%s), _Alignof(%s));\n' % (t, t, t))
        for t in structs:
            f.write('    printf("struct %s %%zu %%zu\\n", sizeof(struct %s), _Alignof(struct %s));\n' % (t, t, t))
        f.write('    return 0;\n}\n')
    feats = feature_sets(brs_path)

    def probe(tag, defs, extra, name):
        exe = os.path.join(odir, 'layout-%s-%s' % (tag, name))
        r = sh(['gcc', '-w', '-O0', '-std=gnu11', '-I' + os.path.join(REPO, 'include'), src, '-o', exe] + defs + extra)
        if r.returncode:
            return None
        rr = sh([exe])
        return rr.stdout if rr.returncode == 0 else None
    stats['simulated_targets'] = dict(macros=sorted(cand), probes=0, not_compilable=0)
    for tag, want, defs in feats:
        base = probe(tag, defs, [], 'host')
        if base is None:
            raise ctx['Inconclusive']('layout probe does not compile/run for the %s feature set with the flags of build.rs (%s)' % (tag, ' '.join(defs)))
        m = re.search(r'^a_real (\d+)', base, flags=re.M)
        stats['evaluations'] += 1
        if not m or int(m.group(1)) != want:
            viols.append(dict(key='abi/build.rs/c-real-width-differs-from-binding', config=tag,
                              msg='compiled with the flags build.rs passes for this feature set (%s) sizeof(a_real) is %s; the binding declares real as f%d' % (' '.join(defs) or 'none', m.group(1) if m else '?', want * 8)))
        jobs = [(name, v) for name in sorted(cand) for v in sorted(cand[name])[:6]]

        def one(job):
            name, v = job
            return job, probe(tag, defs, ['-D%s=%d' % (name, v)], '%s-%d' % (name, v))
        from concurrent.futures import ThreadPoolExecutor
        with ThreadPoolExecutor(max_workers=8) as ex:
            res = list(ex.map(one, jobs))
        for (name, v), out in res:
            stats['simulated_targets']['probes'] += 1
            if out is None:
                stats['simulated_targets']['not_compilable'] += 1
                continue
            stats['evaluations'] += 1
            stats['distinct'].add(('simtarget', name, v, tag))
            if out != base:
                diff = [(a, b) for a, b in zip(base.splitlines(), out.splitlines()) if a != b]
                # the binding's usize / isize / c_int / c_uint / pointers change with the target too: a typedef of that kind that the headers
                # choose differently for the simulated target is not a mismatch this host can judge, and struct sizes then follow it
                exempt = ('a_size', 'a_diff', 'a_int', 'a_uint', 'a_vptr', 'a_str', 'a_iptr', 'a_uptr', 'a_imax', 'a_umax')
                if any(a.split(' ')[0] in exempt for a, _ in diff):
                    stats['simulated_targets']['target_width_typedef_changed_not_judged'] = stats['simulated_targets'].get('target_width_typedef_changed_not_judged', 0) + 1
                    diff = [(a, b) for a, b in diff if not a.startswith('struct ') and a.split(' ')[0] not in exempt]
                    if not diff:
                        continue
                item = diff[0][0].rsplit(' ', 2)[0].replace(' ', '-') if diff else 'output'
                viols.append(dict(key='abi/simulated-target/%s/%s/size-or-alignment-differs-from-this-host' % (name, item), config=tag,
                                  msg='with the compiler predefine %s=%d (a target property the headers consult; flags of build.rs for %s: %s) %d of %d sizes/alignments differ from the ones the Rust mirrors were written for, e.g. "%s" becomes "%s"'
                                      % (name, v, tag, ' '.join(defs) or 'none', len(diff), len(base.splitlines()), diff[0][0] if diff else '', diff[0][1] if diff else '')))


# ------------------------------------------------------------------ cross-target monitor (compile-time, clang as a cross front end)
CROSS_REFERENCE = 'x86_64-unknown-linux-gnu'  # this host's data model: validates the C rendering of the Rust types against the executed host probes
CROSS_TARGETS = [
    # (triple, name of the back end in `clang -print-targets`, extra flags the cc crate passes for the Rust target of that name)
    (CROSS_REFERENCE, 'x86-64', []),
    ('x86_64-pc-windows-msvc', 'x86-64', []),          # LLP64: long 32 bits, pointers 64
    ('x86_64-pc-windows-gnu', 'x86-64', []),           # LLP64
    ('i686-unknown-linux-gnu', 'x86', []),             # ILP32, 4-byte aligned double / long long in structs
    ('armv7-unknown-linux-gnueabihf', 'arm', []),      # ILP32, 8-byte aligned 64-bit types
    ('aarch64-unknown-linux-gnu', 'aarch64', []),
    ('riscv32-unknown-elf', 'riscv32', []),
    ('riscv64-unknown-linux-gnu', 'riscv64', []),
    ('powerpc64-unknown-linux-gnu', 'ppc64', []),      # big-endian LP64
    ('wasm32-unknown-unknown', 'wasm32', []),
    ('thumbv7em-none-eabihf', 'thumb', ['-march=armv7e-m', '-mfpu=fpv4-sp-d16', '-mfloat-abi=hard']),  # single-precision FPU only
    # further data models that cost one more syntax-only compile each
    ('i686-pc-windows-msvc', 'x86', []),               # ILP32 with 8-byte aligned double / long long
    ('aarch64-pc-windows-msvc', 'aarch64', []),        # LLP64
    ('aarch64-apple-darwin', 'aarch64', []),
    ('x86_64-unknown-linux-gnux32', 'x86-64', []),     # ILP32 on a 64-bit machine
    ('s390x-unknown-linux-gnu', 'systemz', []),        # big-endian LP64
    ('m68k-unknown-linux-gnu', 'm68k', []),            # nothing aligned to more than 2 bytes
    ('msp430-none-elf', 'msp430', []),                 # 16-bit int and pointers (the A_SIZE_POINTER == 2 arms of a.h)
    # this host's data model again under the predefines of common BUILD ENVIRONMENTS (CFLAGS of distribution packaging, the Android NDK toolchain file, size-
    # optimised musl builds): macros such as _FORTIFY_SOURCE, __OPTIMIZE__, __OPTIMIZE_SIZE__, NDEBUG, __ANDROID__ are consulted by headers to change
    # DECLARATIONS (seeded change C20-M: under clang with _FORTIFY_SOURCE a buffer parameter gets __attribute__((pass_object_size)), which appends a hidden
    # size_t argument to the machine-level signature while the binding still passes three arguments)
    ('x86_64-pc-linux-gnu', 'x86-64', ['-O2', '-D_FORTIFY_SOURCE=2', '-DNDEBUG', '-D_GNU_SOURCE', '-D_REENTRANT', '-fstack-protector-strong']),
    ('x86_64-linux-android', 'x86-64', ['-Oz', '-D_FORTIFY_SOURCE=2', '-DANDROID', '-D__ANDROID_API__=24', '-DNDEBUG']),
    ('x86_64-unknown-linux-musl', 'x86-64', ['-Os', '-D_FORTIFY_SOURCE=3', '-D_XOPEN_SOURCE=700', '-DNDEBUG']),
]

# The Rust reference's target-independent definition of the primitive types, rendered in C with the compiler's own exact-width /
# pointer-width predefines (no header of the target's C library is needed)
RS_PRIM = {
    'usize': '__UINTPTR_TYPE__', 'isize': '__INTPTR_TYPE__',
    'u8': '__UINT8_TYPE__', 'u16': '__UINT16_TYPE__', 'u32': '__UINT32_TYPE__', 'u64': '__UINT64_TYPE__',
    'i8': '__INT8_TYPE__', 'i16': '__INT16_TYPE__', 'i32': '__INT32_TYPE__', 'i64': '__INT64_TYPE__',
    'f32': 'float', 'f64': 'double', 'c_float': 'float', 'c_double': 'double', 'char': '__UINT32_TYPE__',
    'c_int': 'int', 'c_uint': 'unsigned int', 'c_short': 'short', 'c_ushort': 'unsigned short', 'c_long': 'long', 'c_ulong': 'unsigned long',
    'c_longlong': 'long long', 'c_ulonglong': 'unsigned long long', 'c_char': 'char', 'c_schar': 'signed char', 'c_uchar': 'unsigned char',
}
RS_WIDTH = {'u8': 1, 'i8': 1, 'u16': 2, 'i16': 2, 'u32': 4, 'i32': 4, 'char': 4, 'u64': 8, 'i64': 8, 'f32': 4, 'f64': 8, 'c_float': 4, 'c_double': 8, 'bool': 1}


class RsRender:
    """C rendering of the Rust types the binding uses in mirrored structs and foreign declarations. Every type becomes a typedef
    (`rs_t_<n>`), built bottom-up, so that pointers to arrays, function pointers taking function pointers etc. need no declarator
    gymnastics; a mirrored #[repr(C)] struct becomes `struct rs_<name>` with the renderings of its fields in declaration order -
    the C compiler then applies the target's own layout algorithm, which is what repr(C) promises."""

    def __init__(self, structs, real):
        self.structs = {s['name']: s for s in structs}
        self.real = real
        self.out = ['#ifdef __cplusplus', 'typedef bool rs_bool;', '#else', 'typedef _Bool rs_bool;', '#endif',
                    'typedef %s rs_real; /* pub type real = %s */' % ('float' if real == 4 else 'double', 'f32' if real == 4 else 'f64')]
        for k in sorted(RS_PRIM):
            self.out.append('typedef %s rs_%s;' % (RS_PRIM[k], k))
        for n in self.structs:
            self.out.append('struct rs_%s;' % n)
        self.cache = {'bool': 'rs_bool', 'real': 'rs_real', '()': 'void', '!': 'void', 'c_void': 'void'}
        self.cache.update({k: 'rs_' + k for k in RS_PRIM})
        self.done, self.busy, self.unrendered, self.n = set(), set(), {}, 0

    def fresh(self):
        self.n += 1
        return 'rs_t_%d' % self.n

    def typ(self, ty):
        """name of a C type equivalent to the Rust type `ty` (None: this renderer does not know the type)"""
        ty = ' '.join(ty.split())
        ty = re.sub(r"&\s*'\w+\s*", '&', ty)
        if ty in self.cache:
            return self.cache[ty]
        r = self.typ_(ty)
        if r is None:
            self.unrendered.setdefault(ty, 0)
            self.unrendered[ty] += 1
        else:
            self.cache[ty] = r
        return r

    def typ_(self, ty):
        m = re.match(r'(?:core::option::|std::option::)?Option\s*<\s*(.*)>$', ty)
        if m:  # only the null-pointer-optimised forms are FFI-safe: Option<fn>, Option<&T>, Option<NonNull<T>>
            inner = m.group(1).strip()
            if re.match(r'(?:unsafe\s+)?(?:extern\s*(?:"C"\s*)?)?fn\b', inner) or inner.startswith('&') or re.match(r'(?:\w+::)*NonNull\s*<', inner):
                return self.typ(inner)
            return None
        m = re.match(r'(?:\w+::)*NonNull\s*<\s*(.*)>$', ty)
        if m:
            return self.typ('*mut ' + m.group(1))
        for pre, const in (('*const ', True), ('*mut ', False), ('&mut ', False), ('&', True)):
            if ty.startswith(pre):
                t = self.typ(ty[len(pre):])
                if t is None:
                    return None
                name = self.fresh()
                self.out.append('typedef %s%s *%s; /* %s */' % (t, ' const' if const else '', name, ty))
                return name
        if ty.startswith('[') and ty.endswith(']'):
            parts = split_top(ty[1:-1], ';')
            if len(parts) != 2:
                return None
            t = self.typ(parts[0])
            mn = re.match(r'(0[xX][0-9a-fA-F_]+|0[bB][01_]+|0[oO][0-7_]+|[0-9][0-9_]*)(?:usize|u32|u64|i32)?$', parts[1].strip())
            if t is None or t == 'void' or not mn:
                return None
            n = int(mn.group(1).replace('_', ''), 0)
            name = self.fresh()
            self.out.append('typedef %s %s[%d]; /* %s */' % (t, name, n, ty))
            return name
        m = re.match(r'(?:unsafe\s+)?(?:extern\s*(?:"C"\s*)?)?fn\s*\(', ty)
        if m:
            d, e = 1, m.end()
            while d and e < len(ty):
                d += ty[e] == '('
                d -= ty[e] == ')'
                e += 1
            rest = ty[e:].strip()
            ret = rest[2:].strip() if rest.startswith('->') else '()' if not rest else None
            if ret is None:
                return None
            ps = []
            for p_ in split_top(ty[m.end():e - 1].replace('->', '\x00')):
                p_ = p_.replace('\x00', '->')
                mm = re.match(r'(?:mut\s+)?\w+\s*:(?!:)\s*(.*)$', p_)  # `name: T` is allowed in fn-pointer types
                ps.append(self.typ(mm.group(1) if mm else p_))
            rt = self.typ(ret)
            if rt is None or None in ps or 'void' in ps:
                return None
            name = self.fresh()
            self.out.append('typedef %s (*%s)(%s); /* %s */' % (rt, name, ', '.join(ps) or 'void', ty))
            return name
        base = ty.split('::')[-1] if re.match(r'[\w:]+$', ty) else ty
        if base != ty:
            return self.typ(base)
        if ty in self.structs:
            return 'struct rs_%s' % ty if self.define(ty) else None
        return None

    def define(self, name):
        """emit `struct rs_<name> {...}` (once; nested by-value structs first). False: a field cannot be rendered."""
        if name in self.done:
            return True
        if name in self.busy:
            return False
        self.busy.add(name)
        fields = []
        for fn_, fty in self.structs[name]['fields']:
            bare = ' '.join(fty.split())
            # a pointer to a mirrored struct needs only the forward declaration (and must not recurse: self-referential structs)
            mp = re.match(r"(\*const |\*mut |&mut |&)(\w+)$", bare)
            if mp and mp.group(2) in self.structs and mp.group(2) not in self.done:
                t = self.fresh()
                self.out.append('typedef struct rs_%s%s *%s; /* %s */' % (mp.group(2), ' const' if mp.group(1) in ('*const ', '&') else '', t, bare))
            else:
                t = self.typ(fty)
            if t is None or t == 'void':
                self.busy.discard(name)
                self.unrendered.setdefault('struct %s (field %s: %s)' % (name, fn_, fty), 1)
                return False
            fields.append((t, fn_))
        self.out.append('struct rs_%s { /* #[repr(C)] pub struct %s */' % (name, name))
        for t, fn_ in fields:
            self.out.append('    %s %s;' % (t, fn_))
        self.out.append('};')
        self.busy.discard(name)
        self.done.add(name)
        return True


CROSS_CXX = r'''
/* type classification without any header of a C++ library (none exists here for a foreign target): compiler builtins only */
struct vf_none;
template <class T> struct vf_rcv { typedef T type; };
template <class T> struct vf_rcv<T const> { typedef T type; };
template <class T> struct vf_rcv<T volatile> { typedef T type; };
template <class T> struct vf_rcv<T const volatile> { typedef T type; };
template <class T, class = void> struct vf_size2 { static const unsigned long long value = 0; }; /* incomplete type */
template <class T> struct vf_size2<T, decltype(void(sizeof(T)))> { static const unsigned long long value = sizeof(T); };
template <class T, bool Skip = __is_void(T) || __is_function(T)> struct vf_size { static const unsigned long long value = 0; };
template <class T> struct vf_size<T, false> : vf_size2<T> {};
/* 0 void, 1 bool, 2 integer or enum, 3 floating, 4 pointer, 5 array, 6 struct/union, 7 other */
template <class T0> struct vf_cls
{
    typedef typename vf_rcv<T0>::type T;
    static const int value = __is_void(T) ? 0 : __is_same(T, bool) ? 1 : (__is_integral(T) || __is_enum(T)) ? 2 : __is_floating_point(T) ? 3
                             : __is_pointer(T) ? 4 : __is_array(T) ? 5 : (__is_class(T) || __is_union(T)) ? 6 : 7;
};
template <class T> struct vf_deref { typedef vf_none type; };
template <class T> struct vf_deref<T *> { typedef typename vf_rcv<T>::type type; };
template <class T> struct vf_elem { typedef vf_none type; static const unsigned long long n = 0; };
template <class T, decltype(sizeof(0)) N> struct vf_elem<T[N]> { typedef T type; static const unsigned long long n = N; };
template <class R, class C> struct vf_ok_;
template <bool A, class R, class C> struct vf_arr_ok { static const bool value = true; };
template <class R, class C> struct vf_arr_ok<true, R, C>
{
    static const bool value = vf_elem<R>::n == vf_elem<C>::n && vf_ok_<typename vf_elem<R>::type, typename vf_elem<C>::type>::value;
};
/* same rule as the executed host comparison: class and size equal; pointee sizes compared when both are known and > 1; arrays by
   extent and element; signedness, constness and same-width aliases are not distinguished */
template <class R0, class C0> struct vf_ok_
{
    typedef typename vf_rcv<R0>::type R;
    typedef typename vf_rcv<C0>::type C;
    static const unsigned long long pr = vf_size<typename vf_deref<R>::type>::value, pc = vf_size<typename vf_deref<C>::type>::value;
    static const bool value = vf_cls<R>::value == vf_cls<C>::value && vf_size<R>::value == vf_size<C>::value &&
                              (vf_cls<R>::value != 4 || pr <= 1 || pc <= 1 || pr == pc) && vf_arr_ok<vf_cls<R>::value == 5 && vf_cls<C>::value == 5, R, C>::value;
};
/* the defaulted arguments are there to be PRINTED by the compiler when the assertion fails: class and size on both sides */
template <class RUST, class C, int RUST_CLASS = vf_cls<RUST>::value, int C_CLASS = vf_cls<C>::value,
          unsigned long long RUST_SIZE = vf_size<typename vf_rcv<RUST>::type>::value, unsigned long long C_SIZE = vf_size<typename vf_rcv<C>::type>::value,
          unsigned long long RUST_POINTEE = vf_ok_<RUST, C>::pr, unsigned long long C_POINTEE = vf_ok_<RUST, C>::pc>
struct vf_ok { static const bool value = vf_ok_<RUST, C>::value; };
template <long long RUST, long long C> struct vf_eq { static const bool value = RUST == C; };
template <class T0> struct vf_sgn
{
    typedef typename vf_rcv<T0>::type T;
    static const int value = (__is_integral(T) && !__is_same(T, bool)) ? (__is_signed(T) ? 1 : 2) : 0;
};
template <unsigned K, class... A> struct vf_nth { typedef vf_none type; };
template <class H, class... T> struct vf_nth<0, H, T...> { typedef H type; };
template <unsigned K, class H, class... T> struct vf_nth<K, H, T...> : vf_nth<K - 1, T...> {};
template <class F> struct vf_fn { static const int arity = -1; typedef vf_none ret; template <unsigned K> struct p { typedef vf_none type; }; };
#define VF_FN(SUFFIX, BASE) \
    template <class R, class... A> struct vf_fn<R (*)(A...) SUFFIX> { static const int arity = BASE + (int)sizeof...(A); typedef R ret; template <unsigned K> struct p { typedef typename vf_nth<K, A...>::type type; }; }; \
    template <class R, class... A> struct vf_fn<R (*)(A..., ...) SUFFIX> { static const int arity = 1000 + BASE + (int)sizeof...(A); typedef R ret; template <unsigned K> struct p { typedef typename vf_nth<K, A...>::type type; }; };
VF_FN(, 0)
#if __cplusplus >= 201703L
VF_FN(noexcept, 0)
#endif
'''


def gen_cross(structs, fns, statics, cfields, real, headers, drop=()):
    """Two translation units (C: layouts; C++: types of fields, parameters, results, statics) that hold one static assertion per
    line. Returns (c_text, cxx_text, cmap, xmap, reveal, unrendered): the maps give for every line number the (item, what) it
    belongs to, `reveal` for every C assertion the two expressions that were compared."""
    rr = RsRender(structs, real)
    inc = ['#include "a/%s"' % h for h in headers]
    sane = ['_Static_assert(sizeof(rs_usize) == sizeof(void *) && sizeof(rs_isize) == sizeof(void *), "VFX|renderer|usize-is-not-pointer-wide");',
            '_Static_assert(sizeof(rs_f32) == 4 && sizeof(rs_f64) == 8 && sizeof(rs_bool) == 1 && sizeof(rs_u64) == 8 && sizeof(rs_u32) == 4 && sizeof(rs_u16) == 2 && sizeof(rs_u8) == 1, "VFX|renderer|exact-width-type-has-another-width");',
            '_Static_assert(sizeof(rs_real) == %d, "VFX|renderer|real-has-another-width");' % real]
    c_as, x_as = [], []  # (item, what, line)
    reveal = {}
    for s in structs:
        n = s['name']
        if n not in cfields or n in drop:
            continue
        if not rr.define(n):
            continue
        R, C = 'struct rs_%s' % n, 'struct a_%s' % n
        for what, er, ec in (('size', 'sizeof(%s)' % R, 'sizeof(%s)' % C), ('align', '_Alignof(%s)' % R, '_Alignof(%s)' % C)):
            c_as.append((n, what, '_Static_assert(%s == %s, "VFX|%s|%s");' % (er, ec, n, what)))
            reveal[(n, what)] = (er, ec)
        for (rf, rty), cf in zip(s['fields'], cfields[n]):
            for what, er, ec in (('field-%s-offset' % rf, '__builtin_offsetof(%s, %s)' % (R, rf), '__builtin_offsetof(%s, %s)' % (C, cf)),
                                 ('field-%s-size' % rf, 'sizeof(((%s *)0)->%s)' % (R, rf), 'sizeof(((%s *)0)->%s)' % (C, cf))):
                c_as.append((n, what, '_Static_assert(%s == %s, "VFX|%s|%s");' % (er, ec, n, what)))
                reveal[(n, what)] = (er, ec)
            x_as.append((n, 'field-%s-type' % rf, 'static_assert(vf_ok<decltype(((%s *)0)->%s), decltype(((%s *)0)->%s)>::value, "VFX|%s|field-%s-type");' % (R, rf, C, cf, n, rf)))
    for f in fns:
        n = f['name']
        if n in drop:
            continue
        rt = rr.typ(f['ret'])
        pts = [rr.typ(p[1]) for p in f['params']]
        if rt is None or None in pts:
            rr.unrendered.setdefault('fn %s' % n, 1)
            continue
        F = 'vf_fn<decltype(&%s)>' % n
        x_as.append((n, 'arity', 'static_assert(vf_eq<%d, %s::arity>::value, "VFX|%s|arity");' % (len(pts), F, n)))
        x_as.append((n, 'return-type', 'static_assert(vf_ok<%s, %s::ret>::value, "VFX|%s|return-type");' % (rt, F, n)))
        for k, pt in enumerate(pts):
            x_as.append((n, 'param%d-type' % k, 'static_assert(vf_ok<%s, %s::p<%d>::type>::value, "VFX|%s|param%d-type");' % (pt, F, k, n, k)))
    for s in statics:
        n = s['name']
        if n in drop:
            continue
        t = rr.typ(s['ty'])
        if t is None:
            rr.unrendered.setdefault('static %s' % n, 1)
            continue
        x_as.append((n, 'static-type', 'static_assert(vf_ok<%s, decltype(%s)>::value, "VFX|%s|static-type");' % (t, n, n)))
        x_as.append((n, 'static-align', 'static_assert(vf_eq<alignof(%s), alignof(decltype(%s))>::value, "VFX|%s|static-align");' % (t, n, n)))
        x_as.append((n, 'static-signedness', 'static_assert(vf_eq<vf_sgn<%s>::value, vf_sgn<decltype(%s)>::value>::value, "VFX|%s|static-signedness");' % (t, n, n)))
    pre = inc + rr.out

    def unit(head, asserts):
        lines = '\n'.join(head).split('\n')
        lmap = {}
        for item, what, line in asserts:
            lines.append(line)
            lmap[len(lines)] = (item, what)
        return '\n'.join(lines) + '\n', lmap
    ctext, cmap = unit(pre + sane, c_as)
    xtext, xmap = unit(pre + sane + [CROSS_CXX], x_as)
    return ctext, xtext, cmap, xmap, reveal, '\n'.join(pre) + '\n', dict(rr.unrendered)


CROSS_CLS = {0: 'void', 1: 'bool', 2: 'integer', 3: 'floating', 4: 'pointer', 5: 'array', 6: 'struct', 7: 'other'}


def cross_diags(out, src):
    """clang diagnostics of one translation unit -> ([(item, what, requirement text)] failed assertions, [(line, message)] other errors in
    the unit itself, [message] errors elsewhere)"""
    failed, other, elsewhere = [], [], []
    base = os.path.basename(src)
    for l in out.splitlines():
        m = re.match(r'(.*?):(\d+):\d+: (?:fatal )?error: (.*)$', l)
        if not m:
            if re.match(r'(clang|error)\b.*error', l) or l.startswith('error:'):
                elsewhere.append(l[:300])
            continue
        fa = re.search(r"static[_ ]assert(?:ion)? failed(?: due to requirement '(.*)')?:? *\"?VFX\|([^|\"]+)\|([^|\"]+)", m.group(3))
        if fa:
            failed.append((fa.group(2), fa.group(3), fa.group(1) or ''))
        elif os.path.basename(m.group(1)) == base:
            other.append((int(m.group(2)), m.group(3)[:300]))
        else:
            elsewhere.append('%s:%s: %s' % (m.group(1), m.group(2), m.group(3)[:300]))
    return failed, other, elsewhere


def cross_targets(ctx, outdir, viols, stats, brs_path):
    """The C ABI of the CURRENT headers as clang lays it out FOR OTHER TARGETS, compared at compile time with what the binding declares.
    Every run of the other monitors happens on one data model (x86-64 SysV, LP64); a header change that is an equivalent mutant there
    but not on another data model (seeded change C20-K: a_size spelled `unsigned long` - 4 bytes on 64-bit Windows, where usize has 8)
    is invisible to all of them. clang, however, is a cross compiler front end for every back end it was built with, and
    sizeof/_Alignof/offsetof and the types of declarations are front-end knowledge: no SDK, no C library, no execution is needed.
    For every (target, feature set) two generated units are compiled with -fsyntax-only:
      C   - every public header + `struct rs_<name>` = the C rendering of each #[repr(C)] mirror (usize -> __UINTPTR_TYPE__, uN/iN ->
            __UINTn_TYPE__/__INTn_TYPE__, c_int -> int, real -> double/float, pointers, arrays, nested mirrors), laid out by clang for
            the target, with _Static_assert(sizeof / _Alignof / offsetof / member size == that of struct a_<name>);
      C++ - the same plus, through templates over decltype(&a_fn) (compiler builtins only, no library header), arity and for the result
            and every parameter class + size (+ pointee size) against the rendering of the Rust declaration; the same rule for every
            mirrored field's type and every foreign static (also alignment, signedness).
    A failed assertion is a violation abi/cross-target/<target>/<item>/<what>. A target clang has no back end for, or for which the
    headers alone do not compile with the stub <math.h>/<string.h>, is skipped and counted - never a violation."""
    t0 = time.time()
    REPO = ctx['REPO']
    cov = dict(note='COMPILE-TIME measurements by clang used as a cross front end (-fsyntax-only): sizes, alignments, offsets and declaration types '
                    'as clang computes them for the named foreign target from the current headers, against a C rendering of the Rust declarations '
                    'laid out by the same compiler for the same target. Nothing is executed on or for these targets, no foreign rustc is involved '
                    '(Rust side = the Rust reference\'s definition of usize/uN/c_int/repr(C)), and clang stands in for the target\'s own C compiler.',
               reference_target=CROSS_REFERENCE, targets_compiled=[], assertions_per_target={}, skipped_targets={}, failed_assertions=0)
    stats['cross_targets'] = cov
    clang, clangxx = shutil.which('clang'), shutil.which('clang++')
    if not clang or not clangxx:
        cov['status'] = 'NOT RUN: clang / clang++ not found on this host'
        for t, _, _ in CROSS_TARGETS:
            cov['skipped_targets'][t] = 'no clang on this host'
        return
    cov['compiler'] = sh([clang, '--version']).stdout.splitlines()[0].strip()
    backends = set(re.findall(r'^\s+([\w-]+)\s+- ', sh([clang, '-print-targets']).stdout, flags=re.M))
    odir = os.path.join(outdir, 'cross-targets')
    stub = os.path.join(odir, 'stub')
    os.makedirs(stub, exist_ok=True)
    for h in ('math.h', 'string.h', 'stdlib.h', 'stdio.h'):  # declarations only are needed; the target's C library headers do not exist here
        open(os.path.join(stub, h), 'w').write('/* stub: the public headers are only parsed for their declarations */\n')
    text = open(os.path.join(REPO, 'src', 'lib.rs')).read()
    structs, fns, statics = parse_librs(text)
    headers = sorted(h for h in os.listdir(os.path.join(REPO, 'include', 'a')) if h.endswith('.h'))
    feats = feature_sets(brs_path)
    from concurrent.futures import ThreadPoolExecutor
    # ---- C field names: the host compiler's DWARF (names and order do not depend on the target)
    hdr_text = ''.join(open(os.path.join(REPO, 'include', 'a', h), errors='replace').read() for h in headers)
    have = [s['name'] for s in structs if re.search(r'struct\s+a_%s\b' % s['name'], hdr_text)]
    sc = os.path.join(odir, 'structs.c')
    with open(sc, 'w') as f:
        f.write(''.join('#include "a/%s"\n' % h for h in headers) + ''.join('struct a_%s vf_var_%s;\n' % (n, n) for n in have))
    r = sh(['gcc', '-g', '-O0', '-w', '-c', sc, '-o', os.path.join(odir, 'structs.o'), '-I' + os.path.join(REPO, 'include')] + feats[0][2])
    if r.returncode:
        raise ctx['Inconclusive']('cross-target monitor: the public headers do not compile on the host with the flags of build.rs: ' + r.stdout[-1200:])
    with ThreadPoolExecutor(max_workers=8) as ex:
        fl = list(ex.map(lambda n: gdb_fields(os.path.join(odir, 'structs.o'), 'a_' + n), have))
    cfields = {n: f_ for n, f_ in zip(have, fl) if f_}
    cov['structs_without_c_field_list'] = sorted(set(have) - set(cfields))

    def flags(triple, extra, defs):
        return ['--target=' + triple, '-ffreestanding', '-nostdlibinc', '-fsyntax-only', '-ferror-limit=0', '-fno-caret-diagnostics', '-w',
                '-I' + os.path.join(REPO, 'include'), '-isystem', stub] + extra + defs

    def compile_(cxx, src, fl_):
        return sh(([clangxx, '-std=c++17', '-x', 'c++'] if cxx else [clang, '-x', 'c']) + [src] + fl_)
    # ---- headers-only units (decide which targets are kept)
    hc, hx = os.path.join(odir, 'headers.c'), os.path.join(odir, 'headers.cc')
    for p_ in (hc, hx):
        open(p_, 'w').write(''.join('#include "a/%s"\n' % h for h in headers))
    # ---- reference target first: items that cannot even be stated on this host's data model (function not declared in the headers,
    #      ...) are the business of the executed host monitors and are left out of the units
    units = {}
    drop = {}
    for tag, real, defs in feats:
        drop[tag] = set()
        for attempt in range(4):
            ctext, xtext, cmap, xmap, reveal, pre, unrendered = gen_cross(structs, fns, statics, cfields, real, headers, drop[tag])
            cp, xp = os.path.join(odir, 'cross-%s.c' % tag), os.path.join(odir, 'cross-%s.cc' % tag)
            open(cp, 'w').write(ctext)
            open(xp, 'w').write(xtext)
            bad = set()
            for cxx, src, lmap in ((False, cp, cmap), (True, xp, xmap)):
                r = compile_(cxx, src, flags(CROSS_REFERENCE, [], defs))
                _, other, elsewhere = cross_diags(r.stdout, src)
                if elsewhere and not other:
                    raise ctx['Inconclusive']('cross-target monitor: the generated unit does not compile for the reference target %s: %s' % (CROSS_REFERENCE, ' | '.join(elsewhere[:4])))
                for ln, msg in other:
                    if ln not in lmap:
                        raise ctx['Inconclusive']('cross-target monitor: the generated prelude does not compile for the reference target (%s line %d: %s)' % (os.path.basename(src), ln, msg))
                    bad.add(lmap[ln][0])
            if not bad:
                break
            drop[tag] |= bad
        else:
            raise ctx['Inconclusive']('cross-target monitor: generated units still do not compile for the reference target after dropping %s' % sorted(drop[tag]))
        units[tag] = dict(c=cp, cxx=xp, cmap=cmap, xmap=xmap, reveal=reveal, pre=pre, defs=defs, real=real)
        cov.setdefault('assertions_per_unit', {})[tag] = dict(c=len(cmap), cxx=len(xmap))
        if drop[tag]:
            cov.setdefault('items_left_to_the_host_monitors', {})[tag] = sorted(drop[tag])
        if unrendered:
            cov.setdefault('rust_types_not_rendered', {})[tag] = sorted(unrendered)

    def one(job):
        (triple, backend, extra), (tag, real, defs) = job
        u = units[tag]
        res = dict(triple=triple, tag=tag, skip=None, failed=[], errors=[], n=0)
        if backend not in backends:
            res['skip'] = 'clang -print-targets lists no back end "%s"' % backend
            return res
        fl_ = flags(triple, extra, defs)
        for cxx, src in ((False, hc), (True, hx)):
            r = compile_(cxx, src, fl_)
            if r.returncode:
                res['skip'] = 'the public headers alone do not compile as %s for this target with the stub headers: %s' % (
                    'C++' if cxx else 'C', ' | '.join(l for l in r.stdout.splitlines() if 'error' in l)[:400] or r.stdout[-300:])
                return res
        for cxx, src, lmap in ((False, u['c'], u['cmap']), (True, u['cxx'], u['xmap'])):
            r = compile_(cxx, src, fl_)
            failed, other, elsewhere = cross_diags(r.stdout, src)
            res['n'] += len(lmap)
            if r.returncode and not failed and not other and not elsewhere:
                elsewhere = [r.stdout[-300:]]
            res['failed'] += [(item, what, req, cxx) for item, what, req in failed]
            res['errors'] += [(lmap.get(ln, ('generated-unit', 'line-%d' % ln)), msg) for ln, msg in other] + [(('generated-unit', 'elsewhere'), m_) for m_ in elsewhere]
        # the values behind failed C assertions (clang prints them only for templates): a second unit whose diagnostics carry them
        want = [(item, what) for item, what, req, cxx in res['failed'] if not cxx and (item, what) in u['reveal']]
        res['values'] = {}
        if want:
            rp = os.path.join(odir, 'reveal-%s-%s.c' % (tag, triple))
            lines = u['pre'].split('\n')
            if lines[-1] == '':
                lines.pop()
            lm = {}
            for k, key in enumerate(want):
                for side, expr in zip(('rust', 'c'), u['reveal'][key]):
                    lines.append('char (*vf_reveal_%d_%s)[1 + (%s)] = 1;' % (k, side, expr))
                    lm[len(lines)] = (key, side)
            open(rp, 'w').write('\n'.join(lines) + '\n')
            r = sh([clang, '-x', 'c', rp] + [x for x in fl_ if x != '-w'] + ['-Wno-everything', '-Werror=int-conversion'])
            for l in r.stdout.splitlines():
                m = re.match(r".*?:(\d+):\d+: error: .*'char \(\*\)\[(\d+)\]'", l)
                if m and int(m.group(1)) in lm:
                    key, side = lm[int(m.group(1))]
                    res['values'].setdefault(key, {})[side] = int(m.group(2)) - 1
        return res
    jobs = [(t, f_) for t in CROSS_TARGETS for f_ in feats]
    with ThreadPoolExecutor(max_workers=8) as ex:
        results = list(ex.map(one, jobs))
    # ---- verdicts
    grouped = {}  # (tag, item, what) -> {triple: detail}
    for res in results:
        t, tag = res['triple'], res['tag']
        if res['skip']:
            cov['skipped_targets'].setdefault(t, res['skip'])
            continue
        rbad = sorted(set(what for item, what, req, cxx in res['failed'] if item == 'renderer'))
        if rbad:
            # e.g. a target whose `double` has 4 bytes: the C rendering of f64 does not stand for the Rust type there - not a statement about the binding
            cov['skipped_targets'].setdefault(t, 'the C rendering of the Rust primitive types is not valid for this target (%s)' % ', '.join(rbad))
            continue
        if t not in cov['targets_compiled']:
            cov['targets_compiled'].append(t)
        cov['assertions_per_target'][t] = cov['assertions_per_target'].get(t, 0) + res['n']
        stats['evaluations'] += res['n']
        stats['distinct'].add(('cross-target', t, tag))
        arity_bad = set(item for item, what, req, cxx in res['failed'] if what == 'arity')
        for item, what, req, cxx in res['failed']:
            if item in arity_bad and what.startswith('param'):
                continue
            if cxx:
                m = re.search(r'vf_ok<(.*), (\d+), (\d+), (\d+), (\d+), (\d+), (\d+)>::value', req)
                me = re.search(r'vf_eq<(-?\d+), (-?\d+)>::value', req)
                if m:
                    tys = m.group(1)
                    detail = 'rendering of the Rust declaration vs C declaration <%s>: Rust %s of %s bytes, C %s of %s bytes' % (
                        tys, CROSS_CLS.get(int(m.group(2)), '?'), m.group(4), CROSS_CLS.get(int(m.group(3)), '?'), m.group(5))
                    if m.group(2) == m.group(3) and m.group(4) == m.group(5):
                        detail += (' pointing to %s / %s bytes' % (m.group(6), m.group(7))) if m.group(2) == '4' and m.group(6) != m.group(7) else ' (array extent or element type differs)'
                elif me:
                    detail = 'Rust %s, C %s' % (me.group(1), me.group(2))
                else:
                    detail = req
            else:
                v = res['values'].get((item, what), {})
                detail = 'Rust mirror as laid out for this target %s, C %s' % (v.get('rust', '?'), v.get('c', '?'))
            grouped.setdefault((tag, item, what), {})[t] = detail
        for (item, what), msg in res['errors']:
            grouped.setdefault((tag, item, 'does-not-compile-for-this-target'), {}).setdefault(t, 'clang: ' + msg)
    for (tag, item, what), per in sorted(grouped.items()):
        cov['failed_assertions'] += len(per)
        defs = ' '.join(units[tag]['defs']) or 'none'
        if CROSS_REFERENCE in per:
            # visible on this host's own data model too (the executed monitors report it): one key, the other targets named in the message
            tl = [CROSS_REFERENCE]
            also = ' (the same assertion fails for %d other target(s): %s)' % (len(per) - 1, ', '.join(sorted(x for x in per if x != CROSS_REFERENCE))) if len(per) > 1 else ''
        else:
            tl, also = sorted(per), ''
        for t in tl:
            viols.append(dict(key='abi/cross-target/%s/%s/%s' % (t, item, what), config=tag,
                              msg='compiled (not executed) by %s for %s, C flags of build.rs for %s: %s - %s %s: %s%s' % (
                                  cov.get('compiler', 'clang'), t, tag, defs, item, what, per[t], also)))
    cov['targets_compiled'].sort()
    cov['wall_s'] = round(time.time() - t0, 2)
    if not cov['targets_compiled']:
        raise ctx['Inconclusive']('cross-target monitor: no target could be compiled (%s)' % '; '.join('%s: %s' % kv for kv in sorted(cov['skipped_targets'].items()))[:1500])
    if cov.get('rust_types_not_rendered'):
        raise ctx['Inconclusive']('cross-target monitor: Rust types of the binding it cannot render in C (declarations not compared for foreign targets): %s' % cov['rust_types_not_rendered'])


def one_width(real, tag, outdir, ctx, viols, stats, samples, tier='quick', seed=1, creal=None):
    REPO, VERIF = ctx['REPO'], ctx['VERIF']
    Inc = ctx['Inconclusive']
    wdir = os.path.join(outdir, tag)
    os.makedirs(wdir, exist_ok=True)
    cfg = dict(name='abi-' + tag, real=creal or real, have=ALL_HAVE)  # creal: the width build.rs selects for this feature set
    libdir, cfgh = ctx['build_lib']('san', cfg)
    text = open(os.path.join(REPO, 'src', 'lib.rs')).read()
    structs, fns, statics = parse_librs(text)
    stats['unparsed_extern_items'].update(LEFTOVER)
    if len(structs) < 5 or len(fns) < 40:
        raise Inc('lib.rs parser found only %d structs / %d functions' % (len(structs), len(fns)))
    for f in fns:
        if 'conflict' in f:
            viols.append(dict(key='abi/fn/%s/declared-twice-differently' % f['name'], config=tag, msg='%s vs %s' % (f['text'], f['conflict'])))
    headers = sorted(h for h in os.listdir(os.path.join(REPO, 'include', 'a')) if h.endswith('.h'))
    inc = ['-I' + os.path.join(REPO, 'include'), '-DA_HAVE_H="%s"' % cfgh]
    # ---- C: field names from DWARF
    sc = os.path.join(wdir, 'structs.c')
    with open(sc, 'w') as f:
        f.write(''.join('#include "a/%s"\n' % h for h in headers))
        for s in structs:
            f.write('#ifdef VF_HAVE_%s\nstruct a_%s vf_var_%s;\n#endif\n' % (s['name'], s['name'], s['name']))
    hdr_text = ''.join(open(os.path.join(REPO, 'include', 'a', h)).read() for h in headers)
    have_struct = [s['name'] for s in structs if re.search(r'struct\s+a_%s\b' % s['name'], hdr_text)]
    r = sh(['gcc', '-g', '-O0', '-c', sc, '-o', os.path.join(wdir, 'structs.o')] + inc + ['-DVF_HAVE_%s' % n for n in have_struct])
    if r.returncode:
        raise Inc('structs.c does not compile: ' + r.stdout[-1500:])
    cfields = {}
    for n in have_struct:
        fl = gdb_fields(os.path.join(wdir, 'structs.o'), 'a_' + n)
        if fl is None:
            raise Inc('gdb could not print struct a_%s' % n)
        cfields[n] = fl
    nostruct = [s['name'] for s in structs if s['name'] not in have_struct]
    # ---- C++ probe (retry without names the headers do not declare)
    fn_names = [f['name'] for f in fns]
    st_names = [s['name'] for s in statics]
    undeclared = []
    for attempt in range(6):
        cxx = os.path.join(wdir, 'probe.cc')
        with open(cxx, 'w') as f:
            f.write(gen_cxx([(n, cfields[n]) for n in have_struct], [n for n in fn_names if n not in undeclared],
                            [n for n in st_names if n not in undeclared], headers))
        r = sh(['g++', '-std=c++17', '-O0', '-w', cxx, '-o', os.path.join(wdir, 'probe_c')] + inc + [os.path.join(libdir, 'liba.a'), '-fsanitize=address,undefined', '-lm'])
        if r.returncode == 0:
            break
        bad = set(re.findall(r"[‘'`](a_\w+)[’'] was not declared", r.stdout)) | set(re.findall(r"[‘'`](a_\w+)[’'] undeclared", r.stdout))
        bad |= set(re.findall(r"undefined reference to [`‘'](a_\w+)['’]", r.stdout))
        bad = [b for b in bad if b in fn_names or b in st_names]
        if not bad:
            raise Inc('C++ probe does not compile: ' + r.stdout[-2500:])
        undeclared += bad
    else:
        raise Inc('C++ probe does not compile after retries')
    for n in undeclared:
        viols.append(dict(key='abi/fn/%s/not-declared-in-headers-or-missing' % n, config=tag, msg='lib.rs declares %s but the public headers / library do not provide it' % n))
    rc = sh([os.path.join(wdir, 'probe_c')], env=dict(os.environ, ASAN_OPTIONS='detect_leaks=0'))
    if rc.returncode:
        raise Inc('C++ probe failed: ' + rc.stdout[-1500:])
    cst, cfd, cfn, csv, _, _, _ = parse_tables(rc.stdout)
    # ---- symbols in the library
    nm = sh(['nm', '--defined-only', os.path.join(libdir, 'liba.a')]).stdout
    syms = set(re.findall(r'\b[TtDdBbRrVvWw] (\w+)$', nm, flags=re.M))
    nm_size = {m.group(2): int(m.group(1), 16) for m in re.finditer(r'^[0-9a-fA-F]+ ([0-9a-fA-F]+) [DdBbRrVvGgSsCc] (\w+)$', sh(['nm', '-S', '--defined-only', os.path.join(libdir, 'liba.a')]).stdout, flags=re.M)}
    for n in fn_names + st_names:
        stats['evaluations'] += 1
        if n not in syms:
            viols.append(dict(key='abi/fn/%s/missing-in-library' % n, config=tag, msg='declared in lib.rs, no defined symbol %s in the library built from /repo' % n))
    # ---- Rust probe
    xfer = [n for n in have_struct]
    helper = os.path.join(wdir, 'helper.c')
    twin_text = open(os.path.join(VERIF, 'harness', 'rs_equiv.rs')).read()
    twin_off = None  # reason why the wrapper-equivalence module is not part of this run
    for with_twin in (True, False):
        with open(helper, 'w') as f:
            f.write(gen_c_helper(xfer, cfields, headers, twin=with_twin))
        r = sh(['gcc'] + SAN + ['-c', helper, '-o', os.path.join(wdir, 'helper.o')] + inc)
        if r.returncode == 0:
            break
        if with_twin:
            twin_off = 'the C twins (inline functions, initialisation sequences) do not compile against the current headers: ' + r.stdout[-1200:]
        else:
            raise Inc('C helper does not compile: ' + r.stdout[-2000:])
    r = sh(['ar', 'rcs', os.path.join(wdir, 'libvfhelper.a'), os.path.join(wdir, 'helper.o')])
    rs = os.path.join(wdir, 'probe.rs')
    use_fns = [x for x in fns if x['name'] not in undeclared and x['name'] in syms]
    use_statics = [x for x in statics if x['name'] not in undeclared and x['name'] in syms]
    cmd = ['rustc', '--edition', '2018', '--crate-type', 'bin', '--crate-name', 'vfprobe', '--cfg', 'feature="std"'] + \
          (['--cfg', 'feature="float"'] if real == 4 else []) + \
          ['-A', 'warnings', '-C', 'opt-level=0', rs, '-o', os.path.join(wdir, 'probe_rs'), '-L', 'native=' + libdir, '-L', 'native=' + wdir,
           '-l', 'static=vfhelper', '-l', 'static=a', '-C', 'link-self-contained=no', '-C', 'link-arg=-fuse-ld=bfd',
           '-C', 'link-arg=-lasan', '-C', 'link-arg=-lubsan', '-C', 'link-arg=-lm']
    # stage 1: everything incl. the wrapper-equivalence module; stage 2: the probe as it was before that module existed
    # (layouts, declarations, transfers, known-answer calls); stage 3: declarations only
    r = None
    if twin_off is None:
        with open(rs, 'w') as f:
            f.write(text + '\n' + gen_rust(structs, use_fns, use_statics, xfer, cfields, twin=twin_text))
        r = sh(cmd, cwd=wdir, env=dict(os.environ, CARGO_NET_OFFLINE='true'))
        if r.returncode:
            twin_off = 'the wrapper-equivalence module does not build against this lib.rs (a wrapper was renamed or its signature changed): ' + r.stdout[-2500:]
    if twin_off is not None:
        with open(rs, 'w') as f:
            f.write(text + '\n' + gen_rust(structs, use_fns, use_statics, xfer, cfields))
        r = sh(cmd, cwd=wdir, env=dict(os.environ, CARGO_NET_OFFLINE='true'))
    decl_only_reason = None
    if r.returncode:
        # the binding (or the probe) does not compile: fall back to a declarations-only probe so that a changed foreign
        # declaration is still compared; if that finds nothing the run is inconclusive
        decl_only_reason = r.stdout[-3000:]
        with open(rs, 'w') as f:
            f.write(gen_rust(structs, use_fns, use_statics, xfer, cfields, decl_only=True, real=real))
        r2 = sh(['rustc', '--edition', '2018', '--crate-type', 'bin', '--crate-name', 'vfprobe', '-A', 'warnings', '-C', 'opt-level=0', rs,
                 '-o', os.path.join(wdir, 'probe_rs')], cwd=wdir, env=dict(os.environ, CARGO_NET_OFFLINE='true'))
        if r2.returncode:
            raise Inc('Rust probe does not build: ' + decl_only_reason + '\n--- declarations-only fallback: ' + r2.stdout[-1500:])
    asan = sh(['gcc', '-print-file-name=libasan.so']).stdout.strip()
    nhist = NHIST[tier]
    rr = subprocess.run([os.path.join(wdir, 'probe_rs'), str(seed), str(nhist)], stdout=subprocess.PIPE, stderr=subprocess.PIPE, text=True, cwd=wdir,
                        env=dict(os.environ, LD_PRELOAD=asan, ASAN_OPTIONS='detect_leaks=0:exitcode=99:abort_on_error=0', UBSAN_OPTIONS='print_stacktrace=1:halt_on_error=1:exitcode=98') if not decl_only_reason else dict(os.environ))
    rst, rfd, rfn, rsv, rad, rxf, rcalls = parse_tables(rr.stdout)
    tw_lines = [l for l in rr.stdout.splitlines() if l.startswith('TW')]
    tw_began = any(l.startswith('TWBEGIN') for l in tw_lines)
    if rr.returncode:
        last = [p for p in rxf if p[0] == 'XFER-BEGIN']
        m = re.search(r'ERROR: AddressSanitizer: ([\w-]+)', rr.stderr) or re.search(r'runtime error: (.*)', rr.stderr)
        diedl = [l for l in tw_lines if l.startswith('TWDIED')]
        if tw_began:
            # died inside the wrapper-equivalence module: attribute to the wrapper being twinned (hooks print TWDIED)
            if diedl:
                d = diedl[-1].split()
                key, where = 'api/%s/probe-died-in-%s' % (d[1], d[2]), ' '.join(d[3:])
            else:
                key, where = 'api/probe/died', 'no position marker'
            pan = [l for l in tw_lines if l.startswith('TWPANIC')]
            viols.append(dict(key=key, config=tag, msg='Rust probe died rc=%d during the wrapper-equivalence histories (%s): %s %s' % (
                rr.returncode, where, m.group(0) if m else rr.stderr[-300:], pan[-1] if pan else ''), stderr=rr.stderr[-8000:]))
        else:
            where = ('during transfer of %s (%s)' % (last[-1][1], last[-1][2])) if last and not rcalls else 'during the call-through'
            viols.append(dict(key='abi/probe/sanitizer-report/%s' % (last[-1][1] if last and not rcalls else 'call-through'), config=tag,
                              msg='Rust probe died rc=%d %s: %s' % (rr.returncode, where, m.group(0) if m else rr.stderr[-300:]), stderr=rr.stderr[-8000:]))
    # ---- wrapper equivalence: enumerate the public API from the source, join with what the module covered and exercised
    api = enumerate_api(text)
    tw = stats['twin'].setdefault(tag, dict(counts={}, cfn={}, histories={}, violations=0))
    for l in tw_lines:
        q = l.split()
        if q[0] == 'TW' and len(q) >= 4:
            tw['counts'][q[1]] = tw['counts'].get(q[1], 0) + int(q[2])
            tw['cfn'].setdefault(q[1], [])
            if q[3] not in tw['cfn'][q[1]]:
                tw['cfn'][q[1]].append(q[3])
        elif q[0] == 'TWH' and len(q) >= 3:
            tw['histories'][q[1]] = int(q[2])
        elif q[0] == 'TWX':
            stats['twin_problems'].append('%s: the module exercised %s without registering it' % (tag, ' '.join(q[2:])))
        elif q[0] == 'TWV':
            key, _, rest = l[4:].partition(' | ')
            tw['violations'] += 1
            viols.append(dict(key=key.strip(), config=tag, msg=rest.strip()[:6000]))
            if len(samples) < 14:
                samples.append('%s %s' % (tag, l[:300]))
    if decl_only_reason is None:
        stats['api_enumerated'] = len(api)
        if twin_off is not None:
            stats['twin_problems'].append('%s: wrapper equivalence NOT checked - %s' % (tag, twin_off))
            covered = set(re.findall(r'\("([\w:]+)", "[^"]+"\)', twin_text.split('pub const COVER', 1)[-1].split('];', 1)[0]))
            stats['uncovered_wrappers'].update(n for n in api if n not in covered)
        elif rr.returncode == 0:
            if not any(l.startswith('TWEND') for l in tw_lines):
                stats['twin_problems'].append('%s: the wrapper-equivalence module did not report completion' % tag)
            unc = sorted(n for n in api if n not in tw['counts'])
            zero = sorted(n for n in api if tw['counts'].get(n, 1) == 0)
            stats['uncovered_wrappers'].update(unc)
            stats['unexercised_wrappers'].update(zero)
            if unc:
                stats['twin_problems'].append('%s: lib.rs has public items the wrapper-equivalence module does not cover: %s' % (tag, ', '.join(unc)))
            if zero:
                stats['twin_problems'].append('%s: covered wrappers never exercised in this run: %s' % (tag, ', '.join(zero)))
            for n in api:
                if tw['counts'].get(n, 0) > 0:
                    stats['distinct'].add('twin ' + n)
            stats['evaluations'] += sum(tw['counts'].values())
            if len(samples) < 20:
                samples.append('%s twin calls compared: %s' % (tag, ', '.join('%s=%d' % (n, tw['counts'][n]) for n in ('crc64::gen_lsb', 'crc64::eval', 'pid::pos', 'pid_fuzzy::run', 'tf::set_den', 'version::parse') if n in tw['counts'])))
    # ---- compare structs
    for s in structs:
        n = s['name']
        if n in nostruct:
            stats['structs_without_c_definition'].add(n)
            continue
        stats['evaluations'] += 1
        stats['distinct'].add('struct ' + n)
        c, r_ = cst.get(n), rst.get(n)
        if not c or not r_:
            raise Inc('struct %s missing from a probe table' % n)
        if c['size'] != r_['size']:
            viols.append(dict(key='abi/struct/%s/size' % n, config=tag, msg='C sizeof %d, Rust size_of %d' % (c['size'], r_['size'])))
        if c['align'] != r_['align']:
            viols.append(dict(key='abi/struct/%s/align' % n, config=tag, msg='C alignof %d, Rust align_of %d' % (c['align'], r_['align'])))
        cf, rf = cfd.get(n, []), rfd.get(n, [])
        if len(cf) != len(rf):
            viols.append(dict(key='abi/struct/%s/field-count' % n, config=tag, msg='C has %d fields (%s), Rust mirror %d (%s)' % (len(cf), ','.join(x['name'] for x in cf), len(rf), ','.join(x['name'] for x in rf))))
        cpos = {x['name']: x['idx'] for x in cf}
        for a, b in zip(cf, rf):
            stats['evaluations'] += 1
            if a['off'] != b['off']:
                viols.append(dict(key='abi/struct/%s/field/%s/offset' % (n, b['name']), config=tag, msg='field #%d: C %s at %d, Rust %s at %d' % (a['idx'], a['name'], a['off'], b['name'], b['off'])))
            if a['size'] != b['size']:
                viols.append(dict(key='abi/struct/%s/field/%s/size' % (n, b['name']), config=tag, msg='field #%d: C %s size %d, Rust %s size %d' % (a['idx'], a['name'], a['size'], b['name'], b['size'])))
            if not classes_compatible(a['cls'], b['cls']):
                viols.append(dict(key='abi/struct/%s/field/%s/type' % (n, b['name']), config=tag, msg='field #%d: C %s is %s, Rust %s is %s' % (a['idx'], a['name'], a['cls'], b['name'], b['cls'])))
            # a C field name that appears in the mirror at a different position = swapped same-typed fields
            nm_ = b['name'] if b['name'] in cpos else ALIASES.get(b['name']) if ALIASES.get(b['name']) in cpos else None
            if nm_ is not None and cpos[nm_] != b['idx']:
                viols.append(dict(key='abi/struct/%s/field/%s/position' % (n, b['name']), config=tag, msg='Rust field %s is #%d but the C field of that name is #%d' % (b['name'], b['idx'], cpos[nm_])))
        if len(samples) < 6:
            samples.append('%s struct %s: C sizeof %d align %d fields [%s]; Rust size_of %d align %d fields [%s]' % (
                tag, n, c['size'], c['align'], ' '.join('%s@%d:%s' % (x['name'], x['off'], x['cls']) for x in cf), r_['size'], r_['align'],
                ' '.join('%s@%d:%s' % (x['name'], x['off'], x['cls']) for x in rf)))
    # ---- compare functions
    for f in fns:
        n = f['name']
        if n in undeclared or n not in syms:
            continue
        stats['evaluations'] += 1
        stats['distinct'].add('fn ' + n)
        c, r_ = cfn.get(n), rfn.get(n)
        if not c or not r_:
            raise Inc('function %s missing from a probe table' % n)
        if c['arity'] != r_['arity']:
            viols.append(dict(key='abi/fn/%s/arity' % n, config=tag, msg='C prototype has %d parameters, lib.rs declares %d' % (c['arity'], r_['arity'])))
            continue
        if not classes_compatible(c['ret'], r_['ret']):
            viols.append(dict(key='abi/fn/%s/return-type' % n, config=tag, msg='C returns %s, lib.rs declares %s' % (c['ret'], r_['ret'])))
        for i, (a, b) in enumerate(zip(c['params'], r_['params'])):
            stats['evaluations'] += 1
            if not classes_compatible(a, b):
                viols.append(dict(key='abi/fn/%s/param%d-type' % (n, i), config=tag, msg='parameter %d (%s): C %s, lib.rs %s' % (i, f['params'][i][0], a, b)))
        if rad.get(n) != 'true' and rr.returncode == 0 and not decl_only_reason:
            viols.append(dict(key='abi/fn/%s/address' % n, config=tag, msg='address of the foreign function could not be taken'))
        if len(samples) < 12 and n in ('a_crc16m', 'a_pid_fuzzy_set_rule', 'a_tf_init', 'a_version_lt', 'a_trajbell_gen', 'a_regress_linear_mgd'):
            samples.append('%s fn %s: C  ret %s params %s | Rust ret %s params %s' % (tag, n, c['ret'], ' '.join(c['params']), r_['ret'], ' '.join(r_['params'])))
    for s in statics:
        n = s['name']
        if n in undeclared or n not in syms:
            continue
        stats['evaluations'] += 1
        stats['distinct'].add('static ' + n)
        c, r_ = csv.get(n), rsv.get(n)
        if c and r_ and (c['size'] != r_['size'] or not classes_compatible(c['cls'], r_['cls'])):
            viols.append(dict(key='abi/static/%s/type' % n, config=tag, msg='C %s, lib.rs %s' % (c, r_)))
        # foreign statics, second look (seeded C20-I: the C object widened, `static NAME: T` in lib.rs kept): the object is measured three ways -
        # as the headers declare it (executed C++ probe: sizeof, alignof, signedness, bytes), as the archive defines it (nm -S symbol size)
        # and as lib.rs declares it (size_of, align_of, signedness, the bytes read through the binding's own declaration).  A static that
        # one of the sides could not measure is not passed over: it makes the run inconclusive (evidence: unmeasured_statics).
        if not c or not r_ or None in (c['align'], c['sgn'], c['bytes'], r_['align'], r_['sgn'], r_['bytes']) or n not in nm_size or (r_['bytes'] == '?' and not decl_only_reason):
            stats['unmeasured_statics'].add('%s/%s' % (tag, n))
            continue
        stats['evaluations'] += 4
        stats['static_looks'] += 1
        if c['align'] != r_['align']:
            viols.append(dict(key='abi/static/%s/align' % n, config=tag, msg='C alignof %d, lib.rs align_of::<%s>() %d' % (c['align'], s['ty'], r_['align'])))
        if nm_size[n] != r_['size']:
            viols.append(dict(key='abi/static/%s/object-size' % n, config=tag, msg='the library defines %s with %d bytes (nm -S), lib.rs declares %s (%d bytes)' % (n, nm_size[n], s['ty'], r_['size'])))
        if c['sgn'] != r_['sgn']:
            viols.append(dict(key='abi/static/%s/signedness' % n, config=tag, msg='C %s (%s), lib.rs %s (%s)' % (c['cls'], c['sgn'], s['ty'], r_['sgn'])))
        if r_['bytes'] != '?' and c['bytes'] != r_['bytes']:
            viols.append(dict(key='abi/static/%s/value' % n, config=tag, msg='object bytes read in C %s, read through `static %s: %s` %s' % (c['bytes'], n, s['ty'], r_['bytes'])))
        if len(samples) < 24 and n.endswith('tweak'):
            samples.append('%s static %s: C size %d align %d %s bytes %s, archive %d bytes | lib.rs %s size %d align %d %s bytes %s' % (
                tag, n, c['size'], c['align'], c['sgn'], c['bytes'], nm_size[n], s['ty'], r_['size'], r_['align'], r_['sgn'], r_['bytes']))
    # ---- transfers and calls
    for p in rxf:
        if p[0] != 'XFER':
            continue
        stats['evaluations'] += 1
        stats['transfers'] += 1
        if p[3] != 'ok':
            viols.append(dict(key='abi/xfer/%s/%s' % (p[1], p[2]), config=tag, msg='bytes written through the %s view of %s are not read back identically through the other view (detail %s)' % ('Rust' if p[2] == 'rust-to-c' else 'C', p[1], p[4])))
    for p in rcalls:
        stats['evaluations'] += 1
        stats['calls'] += 1
        stats['distinct'].add('call ' + p[1])
        if p[2] != 'ok':
            viols.append(dict(key='abi/call/%s' % p[1], config=tag, msg='driving the library through the binding disagrees with the same computation in C: ' + ' '.join(p)))
    if decl_only_reason:
        stats['decl_only_fallback'] = True
        if not viols:
            raise Inc('Rust probe does not build and the declarations-only fallback found no mismatch: ' + decl_only_reason)
    elif rr.returncode == 0 and (stats['calls'] == 0 or stats['transfers'] == 0):
        raise Inc('Rust probe ran but reported no transfers/calls')
    stats['structs'] = len(structs)
    stats['functions'] = len(fns)
    stats['statics'] = len(statics)
    return


def run(prop, tier, seed, outdir, replay, ctx):
    spec = __import__('props').PROPS[prop]
    viols, samples = [], []
    stats = dict(evaluations=0, distinct=set(), transfers=0, calls=0, structs_without_c_definition=set(), twin={}, twin_problems=[],
                 uncovered_wrappers=set(), unexercised_wrappers=set(), unmeasured_statics=set(), unparsed_extern_items=set(), static_looks=0)
    widths = [(8, 'f64'), (4, 'f32')]  # both real widths in both tiers: an f32-only layout change must not wait for thorough
    inconclusive = []
    # the C side of each width is compiled the way build.rs compiles it for that feature set: if build.rs stops passing
    # A_SIZE_REAL=4 for the `float` feature (or passes it unconditionally), the Rust mirrors of that width meet a C library of the
    # other width and the layout / declaration / transfer clauses report it
    brs = parse_build_rs(os.path.join(ctx['REPO'], 'build.rs'))
    stats['build_rs'] = brs
    try:
        # compile-time only, independent of the executed monitors below: its own problems must not keep those from running
        cross_targets(ctx, outdir, viols, stats, os.path.join(ctx['REPO'], 'build.rs'))
    except ctx['Inconclusive'] as e:
        inconclusive.append(str(e)[:3000])
    try:
        simulated_targets(ctx, outdir, viols, stats, os.path.join(ctx['REPO'], 'build.rs'))
        cmake_arm(ctx, outdir, viols, stats)
        for real, tag in widths:
            creal = real
            if brs is not None:
                creal = brs['cc'][real == 4]
                if creal not in (4, 8, 16):
                    viols.append(dict(key='abi/build.rs/real-size-not-a-supported-width', config=tag, msg='build.rs defines A_SIZE_REAL=%s for %s' % (creal, tag)))
                    creal = real
                if brs['cmake'][real == 4] != real:
                    viols.append(dict(key='abi/build.rs/cmake-branch-real-size-differs-from-binding', config=tag,
                                      msg='with the cmake feature build.rs passes LIBA_REAL=%s for the %s binding (real is %d bytes there)' % (brs['cmake'][real == 4], tag, real)))
            one_width(real, tag, outdir, ctx, viols, stats, samples, tier, seed, creal=creal)
    except ctx['Inconclusive'] as e:
        inconclusive.append(str(e)[:3000])
    for pbm in stats['twin_problems']:
        inconclusive.append(pbm[:3000])
    if stats['unmeasured_statics']:
        inconclusive.append('foreign statics of lib.rs that were not measured on both sides (headers, archive, binding): ' + ', '.join(sorted(stats['unmeasured_statics'])))
    if stats['unparsed_extern_items']:
        inconclusive.append('items of the extern "C" blocks of lib.rs that are neither fn nor static as the parser reads them: ' + ' | '.join(sorted(stats['unparsed_extern_items']))[:2000])
    for v in viols:
        v.setdefault('case', 0)
        v.setdefault('log', '')
    coverage = dict(evaluations=stats['evaluations'], distinct_nontrivial=len(stats['distinct']), rule=spec['rule'], samples=samples or ['(none)'],
                    explanation=spec['level_text'],
                    structs_compared=stats.get('structs', 0), functions_compared=stats.get('functions', 0), statics_compared=stats.get('statics', 0),
                    statics_measured_three_ways=stats['static_looks'], unmeasured_statics=sorted(stats['unmeasured_statics']), unparsed_extern_items=sorted(stats['unparsed_extern_items']),
                    cross_boundary_transfers=stats['transfers'], call_through_checks=stats['calls'],
                    rust_structs_without_c_struct=sorted(stats['structs_without_c_definition']), widths=[t for _, t in widths], exhaustive=True,
                    exhaustive_scope='every #[repr(C)] struct and every extern "C" item found in src/lib.rs; every pub fn / trait-impl fn / pub const found in src/lib.rs for the wrapper equivalence',
                    public_api_items_enumerated=stats.get('api_enumerated', 0), uncovered_wrappers=sorted(stats['uncovered_wrappers']),
                    unexercised_wrappers=sorted(stats['unexercised_wrappers']), histories_per_struct_and_width=NHIST[tier],
                    wrapper_twin_calls={t: dict(sorted(d['counts'].items())) for t, d in stats['twin'].items()},
                    wrapper_twin_counterpart={n: c for d in stats['twin'].values() for n, c in sorted(d['cfn'].items())},
                    wrapper_histories={t: d['histories'] for t, d in stats['twin'].items()}, simulated_target_predefines=stats.get('simulated_targets'), cmake_arm_of_build_rs=stats.get('cmake_arm'), cross_target_layouts=stats.get('cross_targets'), sanitizer_reports=sum(1 for v in viols if 'sanitizer' in v['key']))
    if replay:
        rp = json.load(open(replay))
        hit = [v for v in viols if v['key'] == rp['key']]
        for v in hit:
            print('replayed violation key=%s %s' % (v['key'], v['msg']))
        if hit:
            print('VIOLATION property=%s replay=%s' % (prop, os.path.abspath(replay)))
            return 1
        print('replay: %s no longer violates' % rp['key'])
        return 0
    return ctx['finish'](prop, tier, seed, spec, coverage, viols, inconclusive, ctx['known'], ctx['t0'], keep_dir=outdir)
