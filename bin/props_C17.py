"""C17 - CRC and hash routines equal their definitions and compose over concatenation (harness/h_crc.c)."""

_COMMON_ASSUMPTIONS = [
    'only executions produced by this run are judged (runtime monitoring, not proof)',
    'gcc 12 / x86-64 LP64 little-endian, A_SIZE_POINTER=8; library rebuilt from /repo working tree with -fsanitize=address,undefined',
]

_EXH = ('all 256 CRC-8 and all 65536 CRC-16 generator polynomials x both bit orders x all 256 table entries '
        '(a_crc8m_init, a_crc8l_init, a_crc16m_init, a_crc16l_init); for one 64-byte message per case every 2-piece and '
        '3-piece split of every prefix length 0..64. NOT exhaustive: CRC-32/64 polynomials, message contents, initial values')

SPEC = dict(
    harness=['h_crc.c'],
    level='exploration',
    rule='tables: every CRC-8 and CRC-16 polynomial is enumerated, CRC-32/64 polynomials are the standard ones plus random draws '
         '(any bit length, sparse, dense, odd); both tables of a polynomial are built by the library in exact 256-entry heap blocks '
         '(pre-filled with the complement of the expected entries) and all 512 entries are compared with c(x)*x^w mod G(x) computed by '
         'plain long division in unsigned __int128, and with each other through bit reflection. Messages: random bytes of five classes '
         '(all values, high bit set, runs of 00/FF, single-bit bytes, ASCII digits), initial values 0, all-ones, 1, top bit, random; '
         'lengths 0..64 with every split point (two and three pieces) and random lengths up to 4096 with random splits and 0..17 byte '
         'chunks; every piece lies at the end of its own exact-size heap block (zero-length pieces point one past the end of a block). '
         'The CRC value is judged against a coefficient-array long division (<=256 bytes) and a one-bit-at-a-time shift register; '
         'hashes against sum(s[i]*m^(n-1-i)) + v*m^n mod 2^32 accumulated from the last byte. '
         'distinct_nontrivial counts distinct (width, bit order, polynomial) tables whose 256 entries were all judged - '
         'NOT the number of messages or calls (evaluations).',
    exhaustive={'quick': _EXH, 'thorough': _EXH},
    require=['table-reinitialised-over-adversarial-contents', 'giant-message-at-once-vs-pieces', 'giant-message-3x2^32-at-once-vs-pieces', 'large-message-lengths', 'table-entry-msb-first', 'table-entry-lsb-first', 'table-reflection-relation',
             'crc-vs-bitwise-division-msb-first', 'crc-vs-bitwise-division-lsb-first', 'crc-vs-coefficient-long-division',
             'crc-reflection-relation', 'crc-message-containing-its-own-running-register',
             'crc-two-pieces-every-split', 'crc-three-pieces-every-split',
             'crc-two-pieces-random-split', 'crc-three-pieces-random-split', 'crc-many-chunks',
             'hash-len-form-vs-sum-definition', 'hash-str-form-vs-sum-definition', 'hash-str-form-vs-len-form',
             'hash-str-form-stops-at-first-nul',
             'hash-two-pieces-every-split', 'hash-three-pieces-every-split', 'hash-three-pieces-random-split'],
    cov_files=['crc.c', 'hash.c'],
    cov_cases=200, cov_funcs=r'^a_(crc|hash_)',
    assumptions=_COMMON_ASSUMPTIONS + [
        'the "value" argument/result is the raw shift register (no implicit initial or final XOR): the definition used is '
        'remainder of (value(x)*x^(8n) + M(x)*x^w) by x^w + poly, coefficients in the bit order of the variant; '
        'a_crcNl_init takes the polynomial in normal (msb-first) notation and reflects it itself, as src/crc.c and test/crc.h do',
        'hash multipliers are 131 (bkdr) and 65599 (sdbm) as documented in include/a/hash.h; bytes are unsigned',
        'a NULL string argument of a_hash_bkdr/a_hash_sdbm and a NULL data pointer with nbyte 0 are not part of the property and are not exercised',
    ],
    level_text='Every table the library can build for 8- and 16-bit polynomials is built and all of its entries are judged against long '
               'division (both tiers); for 32 and 64 bits 10^4 (quick) / 10^6 (thorough) polynomials per width. The eight update paths '
               '(a_crc8 with either table, a_crc16/32/64 m and l) are executed on arbitrary byte values and initial values, judged by '
               'two independent bit-by-bit references, by the reflection relation between the two orders, and by re-feeding the message '
               'in pieces at every split point for lengths 0..64 and at random split points up to 4096 bytes; both hashes in both forms '
               'likewise. Exploration is the right level: the functions are pure, the small parameter spaces are enumerated, the rest is '
               'sampled with structured classes, and the sanitizer watches exact-size blocks for over-reads.',
    level_note='trusted: gcc unsigned __int128 / uint32 wrap-around arithmetic and the harness references (long division, shift register, '
               'byte-reflection table built bit by bit); CRC-32/64 polynomials, data and initial values are sampled, not enumerated; '
               'ASan red zones detect over-reads past the end of a piece, reads before its start are only caught through the value',
    technique='exhaustive table sweep + structured/random message sweep with exact integer oracles, every-split-point re-feeding, '
              'tables re-initialised over adversarial contents, exact-size heap blocks under ASan+UBSan; 2^32+37-byte messages at once vs in pieces (unsanitised); messages containing their own running register',
    # second configuration: one message of 2^32+37 bytes per routine, unsanitised build (two passes over 4 GiB take ~10 s each way)
    configs=lambda tier: [dict(name='mt', harness=['h_mt_codec.c'], hflags=['-DVF_MT=17'], flavour='tsan', nworkers=1), dict(name='default'), dict(name='giant', harness=['h_crc_giant.c'], flavour='fast', nworkers=10 if tier == 'quick' else 13),
                          dict(name='clang', libcc='clang', nworkers=3, of=6), dict(name='o2', libflavour='san-o2', libdrop=['-fno-strict-aliasing'], nworkers=3, of=6)],  # library compiled by clang: half of the cases
    parallel_configs=5,
    workers={'quick': 8, 'thorough': 16},
)
