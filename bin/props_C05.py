_COMMON = [
    'only executions produced by this run are judged (runtime monitoring, not proof)',
    'gcc 12 / x86-64 LP64 little-endian; library rebuilt from /repo working tree with -fsanitize=address,undefined',
]
SPEC = dict(
    harness=['h_list.c'],
    level='exploration',
    memcheck_cases={'thorough': 1600},
    rule='seeded histories of 40-110 operations, one third each on (a) two list.h rings + 20 nodes: add_next/add_prev/add_node, del_node/del_next/'
         'del_prev/del_ section, set_node/set_ section, mov_next/mov_prev of a whole non-empty ring, rot_next/rot_prev (also on empty and 1-element '
         'rings), swap_node and swap_ of sections that are disjoint and non-adjacent (same or different ring), foreach/forsafe macros; (b) two slist.h '
         'lists: add (incl. after the last node), add_head, add_tail, del, del_head, mov, rot, foreach; (c) two queues (element sizes 0,1,4,8,24): '
         'push/pull at both ends, insert/remove at {0, mid, last, num, num+1, SIZE_MAX}, push_sort, push+sort_fore/sort_back, element swap, '
         'whole-queue a_que_swap in every emptiness combination followed by further traffic and destruction, drop, setz, foreach; the comparator handed '
         'to push_sort/sort_fore/sort_back returns, chosen per case, -1/0/+1, the key difference, INT_MIN/0/INT_MAX or magnitudes varying with the '
         'operands (only the sign is contractual). After EVERY call the '
         'rings are walked forward and backward (step-bounded) and compared with an id-sequence model; next->prev/prev->next consistency of every '
         'member incl. sentinels; slist tail == last node; queue count, fore/back/at(+-i) for every i, payload bytes, fixed element addresses, '
         'and "a pushed node is not the address of an enqueued element". distinct_nontrivial = distinct (family, operation, emptiness class of the '
         'operands, position class) combinations judged (large cases: family, operation, position/length class, floor(log2 size)). '
         'LARGE cases (one case in 41 quick / 1201 thorough, families in rotation): (L-a) a list.h ring grown node by node to N nodes (each its own malloc '
         'block), complete forward+backward walk against an id-sequence model at every n with |n-2^k|<=2 and at N, then 30-59 structural operations at '
         'that size (del_ of a section of length 1/2/n/n-1/n/2/n/3/2^k+-1 followed by add_ of the detached chain into either ring, set_ with a chain '
         'cut from the other ring, mov_next/mov_prev of a whole ring at head/0/2^k+-1/n-1, rot_next/rot_prev x {1,2,n-1,n,n+1,2^k+-1}, swap_ of '
         'long disjoint non-adjacent sections in one ring or across rings, swap_node, single add_next/add_prev/add_node/del_node/del_next/del_prev/'
         'set_node at positions 0/1/2^k+-1/n-2/n-1, foreach macros), both rings walked completely after each; (L-b) the same for slist.h '
         '(add_tail/add_head/add incl. after the last node, del/del_head at those positions, mov of a whole long list after head/inner/last node, '
         'rot xR, bulk del_head+add_tail transfers), walk and tail==last node after each; (L-c) a queue of element size 1/3/4/8/24/64 filled to N '
         'elements (push_back/push_fore/insert at 0,num,num+1,SIZE_MAX and rare inner indices), every ring node, link pair, payload byte (derived '
         'from the element id), element address, num, fore/back, at(0), at(-1) and in rotation at(n-1)/at(-n)/at(i)/at(-i-1)/at(n)/at(-n-1), and the '
         'recycling pool (cursor<=capacity, no pooled node enqueued anywhere, no node pooled twice) compared at every n with |n-2^k|<=2 while filling '
         'and draining, after a deterministic sweep insert(i)+remove(i) for i in {2^j-1,2^j,2^j+1 (three largest 2^j<=n), n-1, n}, after every single '
         'insert/remove/push/pull/element swap at that size (indices 0, 2^k+-1, n-1, n, n+1, SIZE_MAX), across 1-3 '
         'fill/drain cycles through the pool (light checks at every pool growth step and pool fill 2^k+-2), whole-queue swap with a queue of '
         '0/1/2/5/33/N/2 elements + traffic on both, drop + refill out of the pool, setz to another element size after heavy use + refill past the '
         'pool with every byte of the new size written, and a sorted queue of N elements with push_sort/sort_fore/sort_back of keys below all, above all, '
         'equal to the first/last/an inner run, between two runs (position must lie in the admissible range, rest of the sequence unchanged). '
         'N: 257, 1023, 4097, 16385, 32767, 65535, 65536, 65537, 2^k+-1 (k 8..15) and random sizes to 70000; thorough additionally 131072, 131073 and '
         'random to 200000. Quick bound: list and slist reach 65537 nodes in every round; the queue reaches 65535/65536/65537 elements in one case '
         'each per run (other queue cases of those slots use N/8), thorough in every round.',
    exhaustive={},
    require=['list-rings-walked', 'slist-walked', 'slist-tail-designates-last-node', 'que-state-compared-with-model', 'que-indexed-access',
             'que-recycled-node-not-enqueued', 'que-pull-returns-the-element', 'que-sorted-insert-keeps-order-and-elements', 'que-element-swap',
             'que-whole-swap', 'que-drop', 'que-setz', 'que-foreach-macros', 'list-foreach-macros', 'slist-foreach-macros', 'que-destroyed', 'que-ctor-dtor-on-caller-storage',
             'que-pull-from-empty-returns-null',
             'large-cases', 'large-list-rings-walked', 'large-list-growth-checkpoints', 'large-list-structural-ops-judged', 'large-list-section-ops',
             'large-list-detached-chain-walked', 'large-list-rotations', 'large-list-cases-reaching-65537',
             'large-slist-walked', 'large-slist-tail-designates-last-node', 'large-slist-growth-checkpoints', 'large-slist-ops-judged',
             'large-slist-whole-list-moves', 'large-slist-rotations', 'large-slist-cases-reaching-65537',
             'large-que-state-compared-with-model', 'large-que-elements-compared', 'large-que-indexed-access', 'large-que-pooled-nodes-checked',
             'large-que-recycled-node-not-enqueued', 'large-que-pull-returns-the-element', 'large-que-fill-checkpoints', 'large-que-drain-checkpoints',
             'large-que-pool-growth-steps-checked', 'large-que-fill-drain-cycles', 'large-que-single-ops-at-size-judged', 'large-que-boundary-sweep-ops', 'large-que-whole-swap',
             'large-que-drop', 'large-que-setz', 'large-que-sorted-insert-position', 'large-que-sorted-inserts-judged', 'large-que-element-swap',
             'large-que-destroyed', 'large-que-cases-reaching-65537',
             'comparator-returns-minus-one-zero-plus-one', 'comparator-returns-key-difference', 'comparator-returns-int-min-int-max',
             'comparator-returns-varying-magnitudes'],
    cov_files=['que.c'], cov_cases=600,
    assumptions=_COMMON + [
        'swap of adjacent nodes/sections is excluded (the property says so; the repository test expects it to be unsupported)',
        'del_next/del_prev are never asked to unlink a head sentinel; set_node is applied to enlisted nodes only; mov_* only with a non-empty source ring',
        'destructor call counts of a_que_drop/a_que_dtor are not judged (the pool semantics of destructors is not part of the property)',
        'large cases: between checkpoints (n farther than 2 from every power of two) bulk fill/drain operations are judged only by their return '
        'value, the returned element (address + payload) and the hand-out clause; the complete comparison happens at the next checkpoint'],
    level_text='Lock-step sequence models with complete ring walks after every call over seeded histories on two containers at a time (so cross-container '
               'operations and the whole-queue swap are exercised), every node and sentinel in its own malloc block under ASan. Histories are unbounded, so '
               'seeded sampling with operand/position class coverage is the reachable level.',
    level_note='trusted: the id-sequence models in harness/h_list.c (semantics read off the headers\' documented diagrams)',
    technique='seeded operation histories against lock-step sequence models, ring-integrity walker, ASan',
)
