_COMMON = [
    'only executions produced by this run are judged (runtime monitoring, not proof)',
    'gcc 12 / x86-64 LP64 little-endian; library rebuilt from /repo working tree with -fsanitize=address,undefined',
]
SPEC = dict(
    harness=['h_list.c'],
    level='exploration',
    memcheck_cases={'thorough': 1600},
    rule='seeded histories of 40-110 operations, one third each on (a) two list.h rings + 20 nodes: add_next/add_prev/add_node, del_node/del_next/'
         'del_prev/del_ section, set_node/set_ section, mov_next/mov_prev of a whole non-empty ring, rot_next/rot_prev (also on empty and 1-element '
         'rings), swap_node and swap_ of sections that are disjoint and non-adjacent (same or different ring), foreach/forsafe macros; (b) two slist.h '
         'lists: add (incl. after the last node), add_head, add_tail, del, del_head, mov, rot, foreach; (c) two queues (element sizes 0,1,4,8,24): '
         'push/pull at both ends, insert/remove at {0, mid, last, num, num+1, SIZE_MAX}, push_sort, push+sort_fore/sort_back, element swap, '
         'whole-queue a_que_swap in every emptiness combination followed by further traffic and destruction, drop, setz, foreach. After EVERY call the '
         'rings are walked forward and backward (step-bounded) and compared with an id-sequence model; next->prev/prev->next consistency of every '
         'member incl. sentinels; slist tail == last node; queue count, fore/back/at(+-i) for every i, payload bytes, fixed element addresses, '
         'and "a pushed node is not the address of an enqueued element". distinct_nontrivial = distinct (family, operation, emptiness class of the '
         'operands, position class) combinations judged.',
    exhaustive={},
    require=['list-rings-walked', 'slist-walked', 'slist-tail-designates-last-node', 'que-state-compared-with-model', 'que-indexed-access',
             'que-recycled-node-not-enqueued', 'que-pull-returns-the-element', 'que-sorted-insert-keeps-order-and-elements', 'que-element-swap',
             'que-whole-swap', 'que-drop', 'que-setz', 'que-foreach-macros', 'list-foreach-macros', 'slist-foreach-macros', 'que-destroyed', 'que-ctor-dtor-on-caller-storage',
             'que-pull-from-empty-returns-null'],
    cov_files=['que.c'], cov_cases=600,
    assumptions=_COMMON + [
        'swap of adjacent nodes/sections is excluded (the property says so; the repository test expects it to be unsupported)',
        'del_next/del_prev are never asked to unlink a head sentinel; set_node is applied to enlisted nodes only; mov_* only with a non-empty source ring',
        'destructor call counts of a_que_drop/a_que_dtor are not judged (the pool semantics of destructors is not part of the property)'],
    level_text='Lock-step sequence models with complete ring walks after every call over seeded histories on two containers at a time (so cross-container '
               'operations and the whole-queue swap are exercised), every node and sentinel in its own malloc block under ASan. Histories are unbounded, so '
               'seeded sampling with operand/position class coverage is the reachable level.',
    level_note='trusted: the id-sequence models in harness/h_list.c (semantics read off the headers\' documented diagrams)',
    technique='seeded operation histories against lock-step sequence models, ring-integrity walker, ASan',
)
