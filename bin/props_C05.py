_COMMON = [
    'only executions produced by this run are judged (runtime monitoring, not proof)',
    'gcc 12 / x86-64 LP64 little-endian; library rebuilt from /repo working tree with -fsanitize=address,undefined',
]
SPEC = dict(
    lsan=True,
    harness=['h_list.c'],
    # 'clang': the library compiled by clang 14; 'o2': the optimisation level and aliasing rules of the release build; half of the cases each
    configs=lambda tier: [dict(name='default'), dict(name='clang', libcc='clang', nworkers=4, of=8), dict(name='o2', libflavour='san-o2', libdrop=['-fno-strict-aliasing'], nworkers=4, of=8)],
    parallel_configs=3,
    level='exploration',
    memcheck_cases={'thorough': 1600},
    rule='seeded histories of 40-110 operations, one third each on (a) two list.h rings + 20 nodes: add_next/add_prev/add_node, del_node/del_next/'
         'del_prev/del_ section, set_node/set_ section, mov_next/mov_prev of a whole non-empty ring, rot_next/rot_prev (also on empty and 1-element '
         'rings), swap_node and swap_ of sections that are disjoint and non-adjacent (same or different ring), foreach/forsafe macros; (b) two slist.h '
         'lists: add (incl. after the last node), add_head, add_tail, del, del_head, mov, rot, foreach; (c) two queues (element sizes 0,1,4,8,24): '
         'push/pull at both ends, insert/remove at {0, mid, last, num, num+1, SIZE_MAX}, push_sort, push+sort_fore/sort_back, element swap, '
         'whole-queue a_que_swap in every emptiness combination followed by further traffic and destruction, drop, setz, foreach; the comparator handed '
         'to push_sort/sort_fore/sort_back returns, chosen per case, -1/0/+1, the key difference, INT_MIN/0/INT_MAX or magnitudes varying with the '
         'operands (only the sign is contractual); CALLER IDIOMS ON A PULLED ELEMENT (3 operation kinds in 25; a pulled element stays in the '
         'queue\'s pool and the next push hands the node out again): p = pull_fore/pull_back/remove(i), the element at p is left alone, given '
         'a new key byte or rewritten completely IN PLACE, then (key) d = push_sort(q, key = p, cmp) resp. d = push_fore/push_back(q) followed '
         'by sort_fore/sort_back, or (source) d = push_fore/push_back/insert(q, j), each followed by the caller\'s `if (d != p) memcpy(d, p, '
         'siz)`; one time in three the push goes to the OTHER queue (equal element size: the key/source then lives in the first queue\'s '
         'pool); no call on either queue between the pull and the push; the model moves the element to the prescribed position (sorted forms: '
         'any position keeping the sequence sorted, generated only on a sorted queue) holding the bytes the caller left in *p; the same two '
         'idioms on the only element of a one-element queue. After EVERY call the '
         'rings are walked forward and backward (step-bounded) and compared with an id-sequence model; next->prev/prev->next consistency of every '
         'member incl. sentinels; slist tail == last node; queue count, fore/back/at(+-i) for every i, payload bytes, fixed element addresses, '
         'and "a pushed node is not the address of an enqueued element". distinct_nontrivial = distinct (family, operation, emptiness class of the '
         'operands, position class) combinations judged (large cases: family, operation, position/length class, floor(log2 size)). '
         'SURFACE (every public entry point and macro form of list.h, slist.h, que.h; table at the head of the SURFACE section of h_list.c): after '
         'every 4th operation of a history and at its end each container is walked through every iteration form - a_list_foreach_next/_prev/_, '
         'a_list_forsafe_next/_prev/_, their upper-case forms (iterator a_list * and a_list const *), a_slist_foreach/forsafe and A_SLIST_FOREACH/'
         'FORSAFE, a_que_foreach/a_que_foreach_reverse (T S) and A_QUE_FOREACH/A_QUE_FOREACH_REVERSE (T) with T in {unsigned char, uint64_t const '
         'through an a_que const *, 24-byte struct} - and must yield exactly the model sequence (addresses, contents of sizeof(T) bytes, count, '
         'order); a_list_entry/_next/_prev, a_slist_entry/_next, a_list_(_, x), a_slist_(_, x) on every member; A_QUE_FORE/BACK/FORE_/BACK_/AT(T, ..) '
         'against the model. At the end of every list/slist history 8-12 (3-5) passes through a forsafe form chosen at random unlink the current '
         'node inside the body at the visits of a random mask (all, random, sparse, first+last) - a_list_del_node(it) resp. a_slist_del(ctx, at) + '
         'it = null - and the model, ring walk and tail clause must hold. Two hand-built structures per history on an enclosing struct whose link '
         'member is not its first member: A_LIST_INIT / A_SLIST_INIT / A_SLIST_NODE initialisers, ctor/init/dtor on blocks whose links point '
         'elsewhere, ring from a_list_link + a_list_loop, a_list_add_ / a_list_del_ (+ a_list_loop closing the detached section) / a_list_set_ with '
         'hand-linked chains, head re-seated by link+loop, slist built/edited by a_slist_link only and then handed to a_slist_rot/del_head/add_tail. '
         'In the queue histories a random half of push_back/push_fore/pull_back/pull_fore/insert/remove/push_sort goes through A_QUE_*(T, ..) '
         '(T in {unsigned char, unsigned char const, uint64_t}); same model update and clauses, key suffixed with the form. '
         'Re-use after destruction: a_list_ctor/init/dtor on a USED head (history end and hand-built ring) and a_slist_ctor/init/dtor on a USED list, '
         'then nodes are added again through add_next/add_prev resp. add/add_head/add_tail and walk + tail are judged; in the queue histories '
         'a_que_dtor + a_que_ctor on the same (re-poisoned) storage resp. a_que_die + a_que_new with another element size, followed by the rest of '
         'the history. Every destructor-taking call runs under the destructor accounting (see assumptions). Empty and one-element queues: on a random '
         'half of the cases on the freshly constructed queues and at the end of every history after draining by pulls (all nodes pooled) '
         'sort_fore, sort_back, at(0, +-1, +-2, PTRDIFF_MAX/MIN), fore, back, pull_fore, pull_back, remove(0/1/SIZE_MAX), drop with/without destructor, '
         'push_sort (below/equal/above the only element), push_fore/push_back/insert(0/1/SIZE_MAX) are each called on the empty and on the '
         'one-element queue and followed by the complete state comparison (keys suffixed empty-queue / one-element-queue). '
         'LARGE cases (one case in 41 quick / 1201 thorough, families in rotation): (L-a) a list.h ring grown node by node to N nodes (each its own malloc '
         'block), complete forward+backward walk against an id-sequence model at every n with |n-2^k|<=2 and at N, then 30-59 structural operations at '
         'that size (del_ of a section of length 1/2/n/n-1/n/2/n/3/2^k+-1 followed by add_ of the detached chain into either ring, set_ with a chain '
         'cut from the other ring, mov_next/mov_prev of a whole ring at head/0/2^k+-1/n-1, rot_next/rot_prev x {1,2,n-1,n,n+1,2^k+-1}, swap_ of '
         'long disjoint non-adjacent sections in one ring or across rings, swap_node, single add_next/add_prev/add_node/del_node/del_next/del_prev/'
         'set_node at positions 0/1/2^k+-1/n-2/n-1, foreach macros), both rings walked completely after each; (L-b) the same for slist.h '
         '(add_tail/add_head/add incl. after the last node, del/del_head at those positions, mov of a whole long list after head/inner/last node, '
         'rot xR, bulk del_head+add_tail transfers), walk and tail==last node after each; (L-c) a queue of element size 1/3/4/8/24/64 filled to N '
         'elements (push_back/push_fore/insert at 0,num,num+1,SIZE_MAX and rare inner indices), every ring node, link pair, payload byte (derived '
         'from the element id), element address, num, fore/back, at(0), at(-1) and in rotation at(n-1)/at(-n)/at(i)/at(-i-1)/at(n)/at(-n-1), and the '
         'recycling pool (cursor<=capacity, no pooled node enqueued anywhere, no node pooled twice) compared at every n with |n-2^k|<=2 while filling '
         'and draining, after a deterministic sweep insert(i)+remove(i) for i in {2^j-1,2^j,2^j+1 (three largest 2^j<=n), n-1, n}, after every single '
         'insert/remove/push/pull/element swap at that size (indices 0, 2^k+-1, n-1, n, n+1, SIZE_MAX), across 1-3 '
         'fill/drain cycles through the pool (light checks at every pool growth step and pool fill 2^k+-2), whole-queue swap with a queue of '
         '0/1/2/5/33/N/2 elements + traffic on both, drop + refill out of the pool, setz to another element size after heavy use + refill past the '
         'pool with every byte of the new size written, and a sorted queue of N elements with push_sort/sort_fore/sort_back of keys below all, above all, '
         'equal to the first/last/an inner run, between two runs (position must lie in the admissible range, rest of the sequence unchanged). '
         'N: 257, 1023, 4097, 16385, 32767, 65535, 65536, 65537, 2^k+-1 (k 8..15) and random sizes to 70000; thorough additionally 131072, 131073 and '
         'random to 200000. Quick bound: list and slist reach 65537 nodes in every round; the queue reaches 65535/65536/65537 elements in one case '
         'each per run (other queue cases of those slots use N/8), thorough in every round.',
    exhaustive={},
    require=['que-nodes-changed-queues-then-element-size-changed', 'index-far-beyond-the-end', 'list-rings-walked', 'slist-walked', 'slist-tail-designates-last-node', 'que-state-compared-with-model', 'que-indexed-access',
             'que-recycled-node-not-enqueued', 'que-pull-returns-the-element', 'que-sorted-insert-keeps-order-and-elements', 'que-element-swap',
             'que-whole-swap', 'que-drop', 'que-setz', 'que-foreach-macros', 'list-foreach-macros', 'slist-foreach-macros', 'que-destroyed', 'que-ctor-dtor-on-caller-storage',
             'que-pull-from-empty-returns-null',
             # caller idioms on a pulled element (pull, then push with the pulled pointer as sort key / as source of the caller's copy)
             'que-recycled-node-as-push_sort-key', 'que-recycled-node-pushed-and-sorted', 'que-recycled-node-as-copy-source',
             'que-foreign-pooled-node-as-push_sort-key', 'que-foreign-pooled-node-as-copy-source',
             'que-pulled-element-intact-after-push-of-another-node',
             'large-cases', 'large-list-rings-walked', 'large-list-growth-checkpoints', 'large-list-structural-ops-judged', 'large-list-section-ops',
             'large-list-detached-chain-walked', 'large-list-rotations', 'large-list-cases-reaching-65537',
             'large-slist-walked', 'large-slist-tail-designates-last-node', 'large-slist-growth-checkpoints', 'large-slist-ops-judged',
             'large-slist-whole-list-moves', 'large-slist-rotations', 'large-slist-cases-reaching-65537',
             'large-que-state-compared-with-model', 'large-que-elements-compared', 'large-que-indexed-access', 'large-que-pooled-nodes-checked',
             'large-que-recycled-node-not-enqueued', 'large-que-pull-returns-the-element', 'large-que-fill-checkpoints', 'large-que-drain-checkpoints',
             'large-que-pool-growth-steps-checked', 'large-que-fill-drain-cycles', 'large-que-single-ops-at-size-judged', 'large-que-boundary-sweep-ops', 'large-que-whole-swap',
             'large-que-drop', 'large-que-setz', 'large-que-sorted-insert-position', 'large-que-sorted-inserts-judged', 'large-que-element-swap',
             'large-que-destroyed', 'large-que-cases-reaching-65537',
             'comparator-returns-minus-one-zero-plus-one', 'comparator-returns-key-difference', 'comparator-returns-int-min-int-max',
             'comparator-returns-varying-magnitudes',
             # SURFACE: one counter per public form; a form that silently stops being exercised fails the run
             'form/a_list_ctor', 'form/a_list_init', 'form/a_list_dtor', 'form/a_list_link', 'form/a_list_loop', 'form/a_list_add_',
             'form/a_list_del_', 'form/a_list_set_', 'form/A_LIST_INIT', 'form/a_list_', 'form/a_list_entry', 'form/a_list_entry_next',
             'form/a_list_entry_prev', 'form/a_list_foreach_', 'form/a_list_foreach_next', 'form/a_list_foreach_prev', 'form/A_LIST_FOREACH_',
             'form/A_LIST_FOREACH_NEXT', 'form/A_LIST_FOREACH_PREV', 'form/a_list_forsafe_', 'form/a_list_forsafe_next',
             'form/a_list_forsafe_prev', 'form/A_LIST_FORSAFE_', 'form/A_LIST_FORSAFE_NEXT', 'form/A_LIST_FORSAFE_PREV',
             'form-removal/a_list_forsafe_', 'form-removal/a_list_forsafe_next', 'form-removal/a_list_forsafe_prev',
             'form-removal/A_LIST_FORSAFE_', 'form-removal/A_LIST_FORSAFE_NEXT', 'form-removal/A_LIST_FORSAFE_PREV',
             'form/a_slist_ctor', 'form/a_slist_init', 'form/a_slist_dtor', 'form/a_slist_link', 'form/A_SLIST_INIT', 'form/A_SLIST_NODE',
             'form/a_slist_', 'form/a_slist_entry', 'form/a_slist_entry_next', 'form/a_slist_foreach', 'form/A_SLIST_FOREACH',
             'form/a_slist_forsafe', 'form/A_SLIST_FORSAFE', 'form-removal/a_slist_forsafe', 'form-removal/A_SLIST_FORSAFE',
             'form/a_que_fore_', 'form/a_que_back_', 'form/A_QUE_FORE_', 'form/A_QUE_BACK_', 'form/A_QUE_FORE', 'form/A_QUE_BACK', 'form/A_QUE_AT',
             'form/a_que_foreach', 'form/a_que_foreach_reverse', 'form/A_QUE_FOREACH', 'form/A_QUE_FOREACH_REVERSE',
             'form/A_QUE_PUSH_BACK', 'form/A_QUE_PUSH_FORE', 'form/A_QUE_PULL_BACK', 'form/A_QUE_PULL_FORE', 'form/A_QUE_INSERT',
             'form/A_QUE_REMOVE', 'form/A_QUE_PUSH_SORT',
             'form-instantiation/unsigned-char', 'form-instantiation/uint64_t-const', 'form-instantiation/struct-of-24-bytes',
             'list-used-head-reset-and-reused', 'slist-used-list-reset-and-reused', 'que-destroyed-and-constructed-again',
             'que-destructor-calls-accounted', 'que-destructor-passed', 'que-destructor-calls-on-enqueued-elements',
             'que-entry-points-on-empty-queue', 'que-entry-points-on-one-element-queue', 'que-comparator-receives-elements-only'],
    cov_files=['que.c'], cov_cases=600,
    assumptions=_COMMON + [
        'swap of adjacent nodes/sections is excluded (the property says so; the repository test expects it to be unsupported)',
        'del_next/del_prev are never asked to unlink a head sentinel; set_node is applied to enlisted nodes only; mov_* only with a non-empty source ring',
        'element destructors (a_que_die/a_que_dtor/a_que_drop/a_que_setz, small cases): judged per API call - every enqueued element receives '
        'exactly one call and still holds its bytes, no address receives two calls, any further call goes to a node of this queue\'s recycling '
        'pool (never a foreign address), no call arrives when no destructor was passed; NOT judged: that pooled (already pulled) nodes do or do '
        'not receive calls (the library calls the destructor on them too - counted as que-destructor-calls-on-pooled-nodes), the order of the '
        'calls (none is documented), and that a node may see a destructor again in a later API call; large cases only count the calls',
        'comparator (small cases): every pointer handed to it must be an enqueued element, the key given to a_que_push_sort or the element '
        'pushed just before sort_fore/sort_back (the documentation calls its operands elements); the number and order of the calls are not judged',
        'pulled elements: the pointer returned by pull_fore/pull_back/remove is read and written by the caller until the next push on that '
        'queue, and used as the key of a_que_push_sort / as the source of `if (d != p) memcpy(d, p, siz)` in that push; judged: the '
        're-inserted element holds the caller\'s bytes at the prescribed position. When the push returns ANOTHER node (unchanged library: '
        'only when the push goes to the other queue - the pool is LIFO) *p must still hold the caller\'s bytes at that moment. NOT judged: '
        'that a pooled element keeps its bytes across later pushes/pulls that do not hand it out (nothing in que.h or the property speaks '
        'about elements that are no longer enqueued), and that the next push returns the pulled node (counted: '
        'que-pulled-node-handed-back-by-the-next-push)',
        'forsafe forms: the helper variable `at` is judged only through its documented use (a_slist_del(ctx, at) must unlink the current node; the '
        'list forms must continue with the saved neighbour after the current node was unlinked and re-initialised); a_que_foreach* are documented '
        'as iteration only, no element is removed inside them',
        'large cases: between checkpoints (n farther than 2 from every power of two) bulk fill/drain operations are judged only by their return '
        'value, the returned element (address + payload) and the hand-out clause; the complete comparison happens at the next checkpoint'],
    level_text='Lock-step sequence models with complete ring walks after every call over seeded histories on two containers at a time (so cross-container '
               'operations and the whole-queue swap are exercised), every node and sentinel in its own malloc block under ASan. Histories are unbounded, so '
               'seeded sampling with operand/position class coverage is the reachable level.',
    level_note='trusted: the id-sequence models in harness/h_list.c (semantics read off the headers\' documented diagrams)',
    technique='seeded operation histories (small, and large to 65537..200000 nodes) against lock-step sequence models, ring-integrity walker, every function and macro form judged, destructor-call accounting, comparator operand monitor, ASan/LeakSanitizer',
)
