_COMMON = [
    'only executions produced by this run are judged (runtime monitoring, not proof)',
    'gcc 12 / x86-64, glibc libm; library (math.c, a.c) rebuilt from /repo working tree per configuration with -fsanitize=address,undefined',
]
REAL_SW = ['ASINH', 'ACOSH', 'ATANH', 'EXPM1', 'LOG1P', 'ATAN2', 'HYPOT']
CPLX = ['CSQRT', 'CPOW', 'CEXP', 'CLOG', 'CSIN', 'CCOS', 'CTAN', 'CSINH', 'CCOSH', 'CTANH', 'CASIN', 'CACOS', 'CATAN', 'CASINH', 'CACOSH', 'CATANH']


def _arms(tier):
    # combinations of the real switches that a nested conditional in math.c / math.h makes relevant (none on the pinned tree); see vf_arms.py
    import vf_arms
    return [dict(c, have=c['have'] + CPLX, nworkers=2) for c in vf_arms.arms(REAL_SW, ('src/math.c', 'include/a/math.h'))]


def _configs(tier):
    # the norm clause with the calling thread in flush-to-zero mode (seeded change C11-J), both bindings of hypot, both widths
    ftz = [dict(name='ftz-all-on-f64', real=8, have=REAL_SW + CPLX, harness=['h_real_ftz.c'], nworkers=2),
           dict(name='ftz-all-off-f64', real=8, have=CPLX, harness=['h_real_ftz.c'], nworkers=2),
           dict(name='ftz-all-off-f32', real=4, have=CPLX, harness=['h_real_ftz.c'], nworkers=2)] + \
          ([dict(name='ftz-all-on-f32', real=4, have=REAL_SW + CPLX, harness=['h_real_ftz.c'], nworkers=2)] if tier != 'quick' else [])
    # the library built with -fopenmp (as setup.py / python/CMakeLists.txt do under LIBA_OPENMP): pragmas guarded by _OPENMP are live there (seeded change C09-K)
    omp = [dict(name='all-on-f64-openmp', real=8, have=REAL_SW + CPLX, cflags=['-fopenmp'], nworkers=2, of=4)]
    # float / double arithmetic in x87 registers (32-bit x86 without SSE2: excess precision and double rounding; seeded change C11-L) and a long double no wider
    # than double: the library alone is built that way
    cg = [dict(name='all-off-f64-x87', real=8, have=CPLX, libflags=['-mfpmath=387'], nworkers=2), dict(name='all-off-f32-x87', real=4, have=CPLX, libflags=['-mfpmath=387'], nworkers=2),
          dict(name='all-off-f64-ld64', real=8, have=CPLX, libflags=['-mlong-double-64'], nworkers=2)]
    return _configs0(tier) + _arms(tier) + ftz + omp + cg


def _configs0(tier):
    out = []
    # strides and lengths beyond 2^32 over sparsely backed mappings (unsanitised, double build)
    giant = dict(name='giant', real=8, have=REAL_SW + CPLX, harness=['h_real_giant.c'], flavour='fast', nworkers=6 if tier == 'quick' else 11)
    # the fallback bodies compiled by clang 14 (half of the cases)
    clang = dict(name='all-off-f64-clang', real=8, have=CPLX, libcc='clang', nworkers=3, of=6)
    o2 = dict(name='all-off-f64-o2', real=8, have=CPLX, libflavour='san-o2', libdrop=['-fno-strict-aliasing'], nworkers=3, of=6)
    if tier == 'quick':
        return [dict(name='all-on-f64', real=8, have=REAL_SW + CPLX), dict(name='all-off-f64', real=8, have=CPLX),
                dict(name='all-off-f32', real=4, have=CPLX, zero=REAL_SW[::2]), giant, clang, o2]
    out.append(giant)
    out.append(clang)
    out.append(o2)
    for real, tag in [(8, 'f64'), (4, 'f32')]:
        out.append(dict(name='all-on-' + tag, real=real, have=REAL_SW + CPLX))
        out.append(dict(name='all-off-' + tag, real=real, have=CPLX, zero=REAL_SW[::2]))
        for i, h in enumerate(REAL_SW):
            out.append(dict(name='off-%s-%s' % (h, tag), real=real, have=[x for x in REAL_SW if x != h] + CPLX, zero=[h] if i % 2 else []))
    return out


SPEC = dict(
    harness=['h_real.c', 'h_real_ext.c'],
    configs=_configs,
    parallel_configs=13,
    lib_sources=['math.c', 'a.c'],
    workers={'quick': 9, 'thorough': 18},
    level='exploration',
    rule='per build configuration (quick: all 7 real switches on f64, all off f64, all off f32; thorough: all on, all off, each switch off alone, x f32/f64 '
         '= 18 builds): asinh, acosh, atanh, expm1, log1p (tiny 1e-300.., moderate, huge ..1e300, both signs, near the domain edges) and atan2 (all '
         'quadrants, exact axis points (0,+-y) and (x,0), nearly-axis points, wildly different magnitudes) through BOTH bindings (header macro = libm or '
         'library body, exported symbol = library body); norm2/norm3/hypot/norm/norm_ with components near REAL_MAX/2, near REAL_MIN, zeros, strides 1..4, '
         'n = 0..33 (also: representable result => finite and non-zero); cart2pol/pol2cart/cart2sph/sph2cart against quad and as round trips; '
         'rad2deg/deg2rad; f32/f64 rsqrt; sum/sum1/sum2/mean/dot (+strided) against quad within (n+2)*eps*sum|terms| and exactly on integer data; '
         'copy/swap/fill/zero/push_fore/push_back/push_*_/roll_*/roll_*_ against an exact array model with canaries for every block length 0..17 x '
         'cache/shift length 0..9. Judgement |err| <= 8*eps*|r|*max(1,kappa) + one subnormal ulp with kappa measured in quad. '
         'distinct_nontrivial = distinct (function, sign/quadrant/regime class, decade of the argument) cells judged.',
    exhaustive={'quick': 'array helpers: every (block length 0..17, cache/shift length 0..9)', 'thorough': 'array helpers: every (block length 0..17, cache/shift length 0..9)'},
    require=['norm-of-a-vector-with-an-infinite-component', 'fp-control-state-compared-around-the-case', 'dense-norm-2^28-components-squares-sum-overflows', 'weighted-sum-of-elements-near-the-largest-finite-value', 'ftz/norms-judged-under-flush-to-zero', 'outputs-sharing-a-cell/cart2sph', 'outputs-sharing-a-cell/sph2cart', 'giant-stride-reductions', 'giant-stride-copy-swap', 'giant-count-reduction', 'components-around-sqrt-of-range-limits', 'means-of-elements-near-the-largest-finite-value', 'judged/cart2sph-origin-and-z-axis', 'judged/cart2pol-origin', 'large-array-lengths', 'judged/asinh/macro', 'judged/asinh/exported', 'judged/acosh/exported', 'judged/atanh/exported', 'judged/expm1/exported', 'judged/log1p/exported',
             'judged/log1p/macro', 'judged/atan2/macro', 'judged/atan2/exported', 'judged/atan2/exact-y-axis', 'judged/norm2', 'judged/norm3', 'judged/hypot',
             'judged/norm', 'judged/norm_', 'norm-no-spurious-overflow-underflow', 'judged/cart2pol', 'judged/pol2cart', 'judged/cart2sph', 'judged/sph2cart',
             'polar-round-trip', 'sphere-round-trip', 'judged/rad2deg', 'judged/deg2rad', 'judged/rsqrt', 'judged/sum', 'judged/sum_', 'judged/sum1',
             'judged/sum2', 'judged/mean', 'judged/mean_', 'judged/dot', 'judged/dot_', 'judged/dot_-same-array', 'judged/dot-same-array', 'judged/copy-swap-fill-zero', 'judged/push-roll', 'judged/block-roll',
             'judged/block-roll-empty-block'],
    cov_files=['math.c'], cov_funcs=r'^a_(real|f32|f64)_', cov_cases=112, cov_timeout=300,
    timeout={'quick': 1200, 'thorough': 7200},
    assumptions=_COMMON + ['oracle = libquadmath evaluated at the exactly converted argument',
                           'atan2 with y = -0.0 (sign-of-zero convention on the cut) is not judged; (x<0, y=+0) must give +pi',
                           'block push semantics: the last min(cache_n, block_n) cache elements enter in order (read off math.c; the header documents no more than "push the elements")'],
    level_text='Differential testing of every real helper against a 113-bit oracle with a conditioning-aware bound, through both the header binding and the '
               'exported body, in every build configuration of the 7 real A_HAVE_* switches and both real widths; exact array model (exhaustive over small '
               'lengths) for the data-movement helpers. Arguments are unbounded; stratified sampling is the reachable level.',
    level_note='trusted: libquadmath, finite-difference condition estimate, the array model in harness/h_real.c',
    technique='differential testing against libquadmath per build configuration, exact array model with canaries, ASan/UBSan; strides and lengths beyond 2^32 over sparsely backed mappings; norm clause repeated with the calling thread in flush-to-zero mode; build configurations derived from nested preprocessor conditionals',
)
