"""C09 - matrix product, transpose and structure kernels match their definitions (harness/h_linalg_kern.c)."""

_KERNELS = ['mulmm', 'mulTm', 'mulmT', 'mulTT', 'T1', 'T2', 'eye1', 'eye2', 'tri1', 'tri2', 'diag', 'diag1', 'diag2',
            'triL', 'triL1', 'triL2', 'triU', 'triU1', 'triU2']

SPEC = dict(
    harness=['h_linalg_kern.c'],
    # the default (double) build runs the full harness; the other two real widths run a compact type-generic companion
    configs=lambda tier: [dict(name='f64'), dict(name='f64-openmp', cflags=['-fopenmp'], nworkers=2, of=4),  # the library as setup.py / python/CMakeLists.txt build it with LIBA_OPENMP: _OPENMP defined, pragmas live (seeded change C09-K)
                          dict(name='f64-clang', libcc='clang', nworkers=4, of=8), dict(name='f64-o2', libflavour='san-o2', libdrop=['-fno-strict-aliasing'], nworkers=4, of=8), dict(name='f32', real=4, harness=['h_linalg_kern_w.c']), dict(name='f80', real=16, harness=['h_linalg_kern_w.c'])],
    parallel_configs=6,
    level='exploration',
    rule='every call of one of the 19 kernels (a_real_mulmm/mulTm/mulmT/mulTT, T1, T2, eye1/2, tri1/2, diag/diag1/diag2, triL/triL1/triL2, '
         'triU/triU1/triU2) is one evaluation: the whole result array is compared BITWISE with an index-by-definition reference (int64 '
         'arithmetic for the products on integer contents |x|<=2^20, inner dimension <=40, so every partial sum is exact in double), the '
         '2x8 canary cells around the result inside the same allocation and a snapshot of every input (exact-size malloc blocks under '
         'ASan) are checked after the call. Shapes are enumerated exhaustively up to a bound and drawn at random up to 40 per dimension '
         '(one fifth of the draws from {1,2,3,39,40}); contents are random integers of two ranges, an index-coded pattern with all '
         'entries distinct, and (data-movement kernels only) arbitrary finite bit patterns incl. -0.0/subnormals/DBL_MAX. '
         'distinct_nontrivial counts distinct (kernel, shape) pairs that were compared, shape = (row,inner,col) for the products, '
         '(m,n) for the rectangular kernels, n for the square ones - NOT the number of calls (evaluations).',
    exhaustive={'quick': 'shape sets only (contents are sampled): all (row,inner,col) in [1,7]^3 for each of the four products (6 random '
                         'contents each); all (m,n) in [1,9]^2 for T2, eye2, tri2, diag2, triL2, triU2 and all n in [1,9] for T1, eye1, tri1, '
                         'diag, diag1, triL, triL1, triU, triU1 (8 contents each)',
                'thorough': 'shape sets only (contents are sampled): all (row,inner,col) in [1,12]^3 for each of the four products (50 random '
                            'contents each); all (m,n) in [1,14]^2 for T2, eye2, tri2, diag2, triL2, triU2 and all n in [1,14] for T1, eye1, '
                            'tri1, diag, diag1, triL, triL1, triU, triU1 (50 contents each)'},
    require=['products-with-zero-times-infinity', 'call-spelled-with-house-style-identifiers-vs-function', 'const-operands-in-read-only-storage', 'diag2-at-extreme-dimensions', 'products-with-aliased-operands', 'products-with-overflowing-term-or-infinite-entry', 'products-with-one-large-dimension', 'rect-kernels-with-one-large-dimension', 'w-products-vs-definition', 'w-transposes-exact'] + [k + '-vs-definition' for k in _KERNELS] +
            ['result-cells-compared-bitwise', 'guard-bands-intact', 'inputs-unchanged', 'T1oT1-identity', 'T1-eq-T2-on-square',
             'T2oT2-identity', 'exhaustive-product-shape-cases', 'exhaustive-rect-shape-cases', 'random-product-batches',
             'random-rect-batches'],
    cov_files=['linalg.c'],
    cov_cases=300,
    cov_funcs=r'^a_real_(mul(mm|Tm|mT|TT)|T[12]|eye[12]|tri[12]|diag[12]?|tri[LU][12]?)$',
    workers={'quick': 8, 'thorough': 16},
    assumptions=[
        'only executions produced by this run are judged (runtime monitoring, not proof)',
        'gcc 12 / x86-64 LP64 little-endian, A_SIZE_POINTER=8; library rebuilt from /repo working tree with -fsanitize=address,undefined',
        'full harness: a_real = double (A_SIZE_REAL=8); the float and long double builds run the compact companion h_linalg_kern_w.c only (four products on small integers '
        'against the integer definition, T1/T2 bitwise on full-precision values of the working type; counters w-*)',
        'where include/a/linalg.h is silent about m != n ("lower/upper triangular part", "diagonal" of an m x n matrix) the index '
        'definition of the property is used: lower part c<=r, upper part c>=r, diagonal r==c with min(m,n) entries; operands do not '
        'alias (all pointer parameters are __restrict); every dimension >= 1 (zero dimensions are outside the property quantifier)',
    ],
    level_text='The kernels are pure functions of (shape, contents) whose failure modes are stride and loop-bound errors that depend on the '
               'shape, not on the values: so the shape space is enumerated completely up to a bound (every (row,inner,col) for the four '
               'products, every (m,n) for the rectangular kernels, which covers rows>columns, rows<columns, inner dimension 1 and 1x1) and '
               'sampled at random up to 40 per dimension, each shape with several contents on which floating-point arithmetic is exact, so '
               'that the judge is bitwise equality with an integer reference and no tolerance can hide a misplaced entry. Writes outside the '
               'result are observed by canary cells on both sides inside the allocation, by ASan red zones behind them and around every '
               'exact-size input, and by input snapshots. This is exploration, not proof: shapes above the bounds and all other contents '
               'are sampled.',
    level_note='trusted: the index-by-definition reference loops of the harness and gcc int64/double arithmetic; an out-of-bounds write that '
               'stores the value already present, or lands beyond the 8 guard cells and the ASan red zone inside another live block, is not '
               'observed; full clause set in the a_real=double build only; dimensions > 40 not executed',
    technique='exhaustive shape enumeration + random shapes with exact-arithmetic (bitwise) oracle, result canaries, input snapshots, ASan+UBSan',
)
