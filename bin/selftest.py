#!/usr/bin/env python3
"""Run checks against seeded faults: for each /verif/seeded/<id>/ (patch.diff + meta.json) make a scratch
copy of /repo's src+include, apply the patch, run the listed checks (quick unless told otherwise) against the
copy with evidence/replays redirected, and report which checks fired.  Never touches /repo or evidence/.

usage: bin/selftest.py [--tier quick|thorough] [--checks C01,C02] [id ...]      (default: all ids)
       bin/selftest.py --patch FILE --checks C04[,C07] [--tier quick]           (ad-hoc patch)
"""
import sys, os, json, subprocess, shutil, tempfile, time
VERIF = os.path.dirname(os.path.dirname(os.path.abspath(__file__)))


def run_one(name, patch, checks, tier):
    scratch = tempfile.mkdtemp(prefix='vf-scratch-%s-' % name, dir='/tmp')
    try:
        for d in ('src', 'include'):
            shutil.copytree(os.path.join('/repo', d), os.path.join(scratch, d))
        if os.path.isdir(os.path.join('/repo', 'cmake')):  # the CMake arm of build.rs (C20)
            shutil.copytree(os.path.join('/repo', 'cmake'), os.path.join(scratch, 'cmake'))
        for f in ('build.rs', 'Cargo.toml', 'CMakeLists.txt'):  # read by the C20 check
            if os.path.exists(os.path.join('/repo', f)):
                shutil.copy2(os.path.join('/repo', f), os.path.join(scratch, f))
        r = subprocess.run(['patch', '-p1', '-s', '-d', scratch, '-i', os.path.abspath(patch)], capture_output=True, text=True)
        if r.returncode:
            return {c: 'PATCH-FAILED ' + (r.stdout + r.stderr)[:200] for c in checks}
        env = dict(os.environ, VF_REPO=scratch, VF_EVIDENCE_DIR=os.path.join(scratch, 'evidence'), VF_TAG='-st-' + name, VF_NO_COV='1')
        out = {}
        for c in checks:
            t0 = time.time()
            r = subprocess.run([os.path.join(VERIF, 'bin', 'check'), c, tier], env=env, capture_output=True, text=True, cwd=VERIF)
            keys = [l.split('key=', 1)[1] for l in r.stdout.splitlines() if l.startswith('VIOLATION') and 'key=' in l]
            out[c] = dict(rc=r.returncode, keys=keys[:6], wall=round(time.time() - t0, 1))
            if r.returncode == 2:
                out[c]['inconclusive'] = [l for l in r.stdout.splitlines() if l.startswith('INCONCLUSIVE')][:2]
            shutil.rmtree(os.path.join(VERIF, 'replays', c + '-st-' + name), ignore_errors=True)
            shutil.rmtree(os.path.join(VERIF, 'build', '%s-%s-st-%s' % (c, tier, name)), ignore_errors=True)
        return out
    finally:
        shutil.rmtree(scratch, ignore_errors=True)


def main():
    a = sys.argv[1:]
    tier = 'quick'
    checks = None
    patches = []
    ids = []
    i = 0
    while i < len(a):
        if a[i] == '--tier':
            tier = a[i + 1]; i += 1
        elif a[i] == '--checks':
            checks = a[i + 1].split(','); i += 1
        elif a[i] == '--patch':
            patches.append(a[i + 1]); i += 1
        else:
            ids.append(a[i])
        i += 1
    results = {}
    if patches:
        for p in patches:
            name = os.path.basename(p).replace('.diff', '')
            results[name] = run_one(name, p, checks, tier)
            print(name, json.dumps(results[name]), flush=True)
    else:
        root = os.path.join(VERIF, 'seeded')
        for d in sorted(os.listdir(root)):
            if ids and d not in ids:
                continue
            mp = os.path.join(root, d, 'meta.json')
            if not os.path.exists(mp):
                continue
            meta = json.load(open(mp))
            cs = checks or meta.get('checks') or [meta['property']]
            results[d] = run_one(d, os.path.join(root, d, 'patch.diff'), cs, tier)
            print(d, json.dumps(results[d]), flush=True)
    missed = [k for k, v in results.items() if not any(isinstance(x, dict) and x['rc'] == 1 for x in v.values())]
    print('detected %d / %d; missed: %s' % (len(results) - len(missed), len(results), missed))
    return 0


if __name__ == '__main__':
    sys.exit(main())
