#!/bin/sh
# Nothing is fetched or pre-built: every check compiles liba from /repo's working tree itself.
# This only verifies the toolchain the checks rely on and creates the scratch directories.
cd "$(dirname "$0")/.." || exit 2
mkdir -p build evidence replays
for t in gcc g++ ar python3 gcov gdb rustc; do
  command -v $t >/dev/null 2>&1 || { echo "setup: missing tool $t"; exit 2; }
done
echo 'int main(void){return 0;}' > build/.t.c
gcc -fsanitize=address,undefined build/.t.c -o build/.t -lquadmath -lm || { echo "setup: sanitizer/quadmath link failed"; exit 2; }
rm -f build/.t build/.t.c
echo setup ok
