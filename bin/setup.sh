#!/bin/sh
# Nothing is fetched or pre-built: every check compiles liba from /repo's working tree itself.
# This only verifies the toolchain the checks rely on and creates the scratch directories.
cd "$(dirname "$0")/.." || exit 2
mkdir -p build evidence replays
for t in gcc g++ clang ar nm python3 gcov gdb rustc; do
  command -v $t >/dev/null 2>&1 || { echo "setup: missing tool $t"; exit 2; }
done
echo 'int main(void){return 0;}' > build/.t.c
gcc -fsanitize=address,undefined build/.t.c -o build/.t -lquadmath -lm || { echo "setup: sanitizer/quadmath link failed"; exit 2; }
# the `clang` configurations link clang-instrumented objects against gcc's sanitizer runtime
clang -O1 -fsanitize=address,undefined -c build/.t.c -o build/.t.o && gcc -fsanitize=address,undefined build/.t.o -o build/.t && ./build/.t || { echo "setup: clang object does not link/run with gcc's sanitizer runtime"; exit 2; }
rm -f build/.t build/.t.c build/.t.o
echo setup ok
