#!/usr/bin/env python3
"""Regenerate the table of seeded changes in DESIGN.md (between the SEEDED-TABLE markers) from seeded/*/meta.json."""
import json, os, re
V = os.path.dirname(os.path.dirname(os.path.abspath(__file__)))
rows = []
for d in sorted(os.listdir(os.path.join(V, 'seeded'))):
    mp = os.path.join(V, 'seeded', d, 'meta.json')
    if not os.path.exists(mp):
        continue
    m = json.load(open(mp))
    patch = open(os.path.join(V, 'seeded', d, 'patch.diff'), errors='replace').read()
    files = sorted(set(re.findall(r'^\+\+\+ b/(\S+)', patch, flags=re.M)))
    det = []
    for c, v in m.get('detection', {}).items():
        if v.get('exit') == 1:
            k = v['keys'][0] if v.get('keys') else '?'
            det.append('%s: `%s`%s' % (c, k, ' (+%d)' % (len(v['keys']) - 1) if len(v.get('keys', [])) > 1 else ''))
        else:
            det.append('%s: not caught (exit %s)' % (c, v.get('exit')))
    note = 'out of the property\'s domain' if m.get('in_domain') is False else ('yes' if m.get('history') else '')
    rows.append('| %s | %s | %s | %s |' % (d, ', '.join(files), '; '.join(det), note))
table = '\n'.join(['| seeded change | files touched | caught by (quick tier): first key | check strengthened? |', '|---|---|---|---|'] + rows) + '\n'
p = os.path.join(V, 'DESIGN.md')
s = open(p).read()
b, e = '<!-- SEEDED-TABLE-BEGIN -->\n', '<!-- SEEDED-TABLE-END -->\n'
if b in s:
    s = s[:s.index(b) + len(b)] + table + s[s.index(e):]
else:
    i = s.index('| seeded change | files touched |')
    j = s.index('\nA change that leaves no trace', i)
    s = s[:i] + b + table + e + s[j + 1:]
open(p, 'w').write(s)
print('%d seeded changes' % len(rows))
