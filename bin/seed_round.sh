#!/bin/sh
# usage: bin/seed_round.sh <Cxx> <destA> <destB> [extra checks]   e.g. bin/seed_round.sh C04 G H
# verifies out/A and out/B of /tmp/seed-<Cxx> independently (bin/seed_verify.sh) and keeps each as seeded/<Cxx>-<dest>,
# running the quick tier of the property's own check (plus any extra checks) against it.
P=$1; DA=$2; DB=$3; shift 3
cd "$(dirname "$0")/.." || exit 2
for pair in "A $DA" "B $DB"; do
  set -- $pair "$@"
  V=$1; D=$2
  R=$(bin/seed_verify.sh /tmp/seed-$P $V 2>&1 | tail -1)
  echo "$P $V: $R"
  case "$R" in *"tests=ok demo_without_rc=0 demo_with_rc="[1-9]*) bin/seed_keep.py $P $V $P quick $D 2>&1 | tail -1 | cut -c1-400;; *) echo "  NOT KEPT";; esac
  shift 2
done
