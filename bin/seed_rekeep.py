#!/usr/bin/env python3
"""usage: bin/seed_rekeep.py <seed id> [--checks C12,C13] [--history "text"]
Re-run the quick tier of the seed's checks against the kept patch (bin/selftest.py, scratch copy, /repo untouched) and record the
result in seeded/<id>/meta.json (detection, and - for a seed that the then-current check missed - the history note)."""
import sys, os, json, subprocess
V = os.path.dirname(os.path.dirname(os.path.abspath(__file__)))
a = sys.argv[1:]
sid = a[0]
checks = None
hist = None
i = 1
while i < len(a):
    if a[i] == '--checks':
        checks = a[i + 1].split(','); i += 1
    elif a[i] == '--history':
        hist = a[i + 1]; i += 1
    i += 1
mp = os.path.join(V, 'seeded', sid, 'meta.json')
meta = json.load(open(mp))
cs = checks or meta.get('checks') or [meta['property']]
r = subprocess.run([os.path.join(V, 'bin', 'selftest.py'), '--checks', ','.join(cs), sid], capture_output=True, text=True, errors='replace')
line = [l for l in r.stdout.splitlines() if l.startswith(sid + ' ')]
det = json.loads(line[0].split(' ', 1)[1]) if line else {}
meta['checks'] = cs
meta['detection'] = {c: dict(tier='quick', exit=v.get('rc'), keys=v.get('keys')) for c, v in det.items() if isinstance(v, dict)}
if hist:
    meta['history'] = hist
json.dump(meta, open(mp, 'w'), indent=1)
print(sid, {c: (v['exit'], (v['keys'] or [])[:2]) for c, v in meta['detection'].items()})
