_COMMON = [
    'only executions produced by this run are judged (runtime monitoring, not proof)',
    'gcc 12 / x86-64 LP64 little-endian; library rebuilt from /repo working tree with -fsanitize=address,undefined',
]
SPEC = dict(
    lsan=True,
    harness=['h_oom.c'],
    # 'clang': the library compiled by clang 14; 'o2': the optimisation level and aliasing rules of the release build; half of the cases each
    configs=lambda tier: [dict(name='default'), dict(name='clang', libcc='clang', nworkers=4, of=8), dict(name='o2', libflavour='san-o2', libdrop=['-fno-strict-aliasing'], nworkers=4, of=8)],
    parallel_configs=3,
    level='fault_enumeration',
    memcheck_cases={'thorough': 240},
    rule='for each seeded history H of 20-60 operations on one vector, fixed buffer, string or queue (op mixes of C04-C06 incl. new/die, setz, drop, '
         'exit, formatted append with lengths straddling the spare capacity): H is run fault-free to count its A(H) allocation requests (size>0 calls '
         'through the a_alloc pointer), then re-run FROM SCRATCH for every k in 1..A(H) twice: request k alone refused (the failed operation is '
         'retried and must succeed, the history continues) and every request >= k refused (every later allocating operation must fail cleanly, '
         'non-allocating ones must still work). Monitors: a reported failure only when a request was refused and vice versa; after a failed call '
         'count, element size, every element byte, element addresses (queue), capacity not shrunk and - if the string was NUL-terminated before - '
         'the terminator, all unchanged; full model comparison after every successful call; ledger of live blocks empty after destruction, no '
         'release/resize of a block the allocator never issued. distinct_nontrivial = distinct (container kind, operation, index of the refused '
         'request inside that operation, single|persistent) on which a failure was injected and the post-state audited.',
    exhaustive={'quick': 'every allocation request position of every generated history, single and persistent',
                'thorough': 'every allocation request position of every generated history, single and persistent'},
    require=['refusal-produced-by-the-default-allocator-itself', 'single-fault-runs', 'persistent-fault-runs', 'buf-setm-below-the-count-refused', 'state-unchanged-after-failed-call', 'retry-after-failure', 'retry-succeeded',
             'failure-reported-only-when-a-request-was-refused', 'ledger-audited-at-destruction', 'tight-memory-runs', 'seq-state-compared-with-model',
             'str-state-compared-with-model', 'que-state-compared-with-model', 'str-terminator-survives-failed-call',
             'que-drop-failure-leaves-suffix', 'que-setz-failure-keeps-old-size'],
    cov_files=['vec.c', 'buf.c', 'str.c', 'que.c', 'a.c'], cov_cases=200,
    timeout={'quick': 900, 'thorough': 7200}, case_timeout=600,
    assumptions=_COMMON + [
        'composite discard operations are judged at the granularity at which they allocate: a failed a_que_drop leaves exactly the not-yet-released '
        'suffix; a failed a_que_setz leaves the queue as the failed drop left it, with its old element size',
        'a zero-length formatted append is not generated (a_str_catf reports failure as 0)',
        'requests of size 0 (releases) never fail'],
    level_text='Exhaustive over fault positions within each generated history (every allocation request refused alone, and all from it onward), with a '
               'lock-step model as state oracle and a live-block ledger as leak/double-free oracle; the histories themselves are seeded samples. '
               'Enumerating fault positions is what the property quantifies over; histories are unbounded.',
    level_note='trusted: the failing allocator shim installed through the library\'s a_alloc pointer (old block stays alive on a refused resize, like realloc), '
               'the container models in harness/h_oom.c',
    technique='allocation-fault enumeration via a_alloc hook, lock-step models, live-block ledger, ASan/UBSan',
)
