_COMMON = [
    'only executions produced by this run are judged (runtime monitoring, not proof)',
    'gcc 12 / x86-64, glibc libm; library (complex.c, math.c, a.c) rebuilt from /repo working tree per configuration with -fsanitize=address,undefined',
]
ALL_HAVE = ['ASINH', 'ACOSH', 'ATANH', 'EXPM1', 'LOG1P', 'ATAN2', 'HYPOT', 'CSQRT', 'CPOW', 'CEXP',
            'CLOG', 'CSIN', 'CCOS', 'CTAN', 'CSINH', 'CCOSH', 'CTANH', 'CASIN', 'CACOS', 'CATAN',
            'CASINH', 'CACOSH', 'CATANH']


# a covering array of strength 3 over the 23 switches (30 rows, greedy, computed once): every assignment of every THREE switches occurs in at
# least one row. The fallback body of one function calls other functions through whatever binding the build gives them, so a defect may need a
# COMBINATION of switch positions (seeded change C10-J: cpow off, clog off, cexp on - never built by "all on / all off / each off alone").
_COVER3 = [1482472, 7151647, 7920515, 5926005, 2737518, 6812196, 1184603, 5613013, 2981586, 4402606, 3688860, 5170, 5120481, 1034411, 6481691,
           3410437, 5217040, 3880141, 5372408, 6047542, 3399858, 6863558, 6774079, 2635576, 1688078, 2510695, 1377993, 5164250, 1342024, 55287]


def _row(k):
    return [h for i, h in enumerate(ALL_HAVE) if _COVER3[k] >> (22 - i) & 1]


def _arms():
    import vf_arms
    return vf_arms.arms(ALL_HAVE, ('src/complex.c', 'src/math.c', 'include/a/complex.h', 'include/a/math.h'))


def _configs(tier):
    out = _configs0(tier)
    # code-generation choices of other targets that this compiler can reproduce: float / double arithmetic in x87 registers (32-bit x86 without SSE2:
    # excess precision, double rounding - seeded change C11-L) and a long double that is no wider than double (Apple Silicon, 32-bit ARM, Android x86,
    # -mlong-double-64 - seeded change C10-L: 'evaluate in the next wider type'); the library alone is built that way, the fallback bodies in both
    out += [dict(name='all-off-f64-x87', real=8, have=[], libflags=['-mfpmath=387'], nworkers=2),
            dict(name='all-off-f64-ld64', real=8, have=[], libflags=['-mlong-double-64'], nworkers=2)]
    import os
    seed = int(os.environ.get('VERIF_SEED', '1') or '1')
    if tier == 'quick':
        # four rows of the covering array per run (which four rotates with VERIF_SEED)
        out += [dict(name='cover3-row%d-f64' % k, real=8, have=_row(k), nworkers=2) for k in [(4 * seed + j) % len(_COVER3) for j in range(4)]]
        out += [dict(c, nworkers=2) for c in _arms()]
    else:
        out += [dict(name='cover3-row%d-%s' % (k, 'f64' if (k + seed) % 2 else 'f32'), real=8 if (k + seed) % 2 else 4, have=_row(k), nworkers=2) for k in range(len(_COVER3))]
        out += [dict(c, nworkers=2) for c in _arms()]
    return out


def _configs0(tier):
    # the fallback bodies compiled by clang 14 (half of the cases): compiler-conditional code and unspecified evaluation order
    out = [dict(name='all-off-f64-clang', real=8, have=[], libcc='clang', nworkers=3, of=6),
           # ... and with the optimisation level and aliasing rules of the release build
           dict(name='all-off-f64-o2', real=8, have=[], libflavour='san-o2', libdrop=['-fno-strict-aliasing'], nworkers=3, of=6)]
    reals = [(8, 'f64'), (4, 'f32')]
    if tier == 'quick':
        out.append(dict(name='all-on-f64', real=8, have=ALL_HAVE))
        out.append(dict(name='all-off-f64', real=8, have=[]))
        out.append(dict(name='all-off-f32', real=4, have=[], zero=ALL_HAVE[::2]))
        # mixed builds in which a composite fallback body (asinh/acosh/atanh = +-i f(+-iz)) sits on top of a libm-backed base
        # function: the two sides may follow different conventions on an axis (seeded change C10-C)
        for h in ('CASINH', 'CACOSH', 'CATANH'):
            out.append(dict(name='off-%s-f64' % h, real=8, have=[x for x in ALL_HAVE if x != h]))
        return out
    for real, tag in reals:
        out.append(dict(name='all-on-' + tag, real=real, have=ALL_HAVE))
        out.append(dict(name='all-off-' + tag, real=real, have=[], zero=ALL_HAVE[::2]))
        for i, h in enumerate(ALL_HAVE):
            # "off" alternates between undefined and defined as 0 (the sources treat both alike)
            out.append(dict(name='off-%s-%s' % (h, tag), real=real, have=[x for x in ALL_HAVE if x != h],
                            zero=[h] if i % 2 else []))
    return out


SPEC = dict(
    harness=['h_complex.c'],
    configs=_configs,
    parallel_configs=10,
    lib_sources=['complex.c', 'math.c', 'a.c'],
    workers={'quick': 12, 'thorough': 16},
    level='exploration',
    rule='per build configuration (quick: all switches on f64, all off f64, all off f32, and CASINH / CACOSH / CATANH off alone f64; thorough: all on, all off and each of the 23 A_HAVE_* '
         'switches off alone, each for A_SIZE_REAL 8 and 4 = 50 builds) and per function (33 unary functions with out-of-place and in-place forms, '
         'add/sub/mul/div with complex, real-scalar and imaginary-scalar operands, pow, pow_real, logb, polar, abs, abs2, arg, logabs, eq/ne/rect, '
         '7 real-argument variants, 9 inverse-pair compositions): arguments with log-uniform modulus over the decades where the result is representable, '
         'uniform phase, exact axis points, nearly-axis points, points approaching +-1 and +-i, the unit circle. Each result is compared norm-wise with '
         'the libquadmath value: |err| <= K*eps*|w|*max(1,kappa), kappa measured by finite differences in quad, K=16 (all switches on) / 64 (fallback '
         'bodies present). Points within a relative margin 1e-3 of a branch cut (explicit per-function table), with kappa > 1e6, or with |w| outside the '
         'representable decades are skipped and counted. distinct_nontrivial = distinct (function, quadrant-or-axis of the argument, decade of |z|) cells '
         'with at least one judged point (summed over configurations by hash union, i.e. configuration is not part of the cell).',
    exhaustive={},
    require=['judged/sqrt', 'judged/log', 'judged/log2', 'judged/exp', 'judged/asin', 'judged/acosh', 'judged/atanh', 'judged/acoth',
             'judged/mul', 'judged/div', 'judged/div_imag', 'judged/mul_imag', 'judged/pow', 'judged/logb', 'judged/polar', 'judged/abs',
             'judged/arg', 'judged/logabs', 'judged/asin_real', 'judged/acosh_real', 'judged/mul_imag-div_imag', 'judged/log-exp', 'judged/exp-log',
             'judged/inv-inv', 'judged/mul-div', 'judged/add-sub'],
    cov_files=['complex.c'], cov_cases=240, cov_timeout=300,
    timeout={'quick': 1200, 'thorough': 10800},
    assumptions=_COMMON + ['oracle = libquadmath (113-bit) evaluated at the exactly converted float/double argument',
                           'signed-zero conventions ON the cuts and values at poles are not judged (the real-argument variants on their cuts are judged by component magnitudes only); long double builds are not covered',
                           'argument moduli span the normal range of the type (1e-307..1.6e308, float 3e-38..3e38; inverse families 1e-307..1.78e308, float 1e-37..3.39e38), results are judged up to the largest finite value; '
                           'subnormal arguments are not drawn; arguments whose modulus is itself not representable (both components within a factor two of MAX) are drawn for the arithmetic group, pow / pow_real '
                           'and, since the large-argument repair of the fallbacks, for the inverse trigonometric / hyperbolic families too',
                           'compositions (z*s)/s, (z/s)*s, inv(inv z) are judged only when the intermediate value is representable with full precision',
                           'exponential-family functions get one sample in ten with a component within (-2, +0.4) of ln(MAX); small lattice points (0, +-1, +-2, +-1/2, +-3 in both components) one sample in 24',
                           'K = 16 / 64 are calibrated head-room constants (worst observed ratios are reported per function under worst_observed)'],
    level_text='Differential testing of every complex operation against a 113-bit oracle with a conditioning-aware norm-wise bound, repeated in every build '
               'configuration of the A_HAVE_* switches and both real widths, so that both the libm-backed and the fallback body of each function are executed. '
               'Inputs are unbounded; stratified random sampling with explicit cut/pole exclusion is the reachable level.',
    level_note='trusted: libquadmath, the finite-difference condition estimate, the per-function cut table in harness/h_complex.c',
    technique='differential testing against libquadmath per build configuration over the whole normal argument range (cut/pole exclusion, overflow threshold, lattice points), ASan/UBSan; strength-3 covering array over the 23 build switches and build configurations derived from nested preprocessor conditionals',
)
