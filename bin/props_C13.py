"""C13 - membership functions, fuzzy operators and gain scheduling stay within range."""

SPEC = dict(
    harness=['h_fuzzy.c', 'h_fuzzy_ext.c'],
    level='exploration',
    rule='placeholder',
    exhaustive={'quick': None, 'thorough': None},
    require=['mf-range'],
    cov_files=['mf.c', 'fuzzy.c', 'pid_fuzzy.c'],
    cov_cases=300, cov_funcs=r'^a_(mf|fuzzy|pid_fuzzy)',
    assumptions=[
        'only executions produced by this run are judged (runtime monitoring, not proof)',
        'gcc 12 / x86-64 LP64 little-endian, A_SIZE_POINTER=8; library rebuilt from /repo working tree with -fsanitize=address,undefined',
    ],
    level_text='placeholder',
    level_note='placeholder',
    technique='placeholder',
)
