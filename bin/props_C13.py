"""C13 - membership functions, fuzzy operators and gain scheduling stay within range."""

SPEC = dict(
    harness=['h_fuzzy.c', 'h_fuzzy_ext.c'],
    # the default (double) build runs the full harness; the other two real widths run a compact type-generic companion
    configs=lambda tier: [dict(name='f64'), dict(name='f64-clang', libcc='clang', nworkers=4, of=8), dict(name='f64-o2', libflavour='san-o2', libdrop=['-fno-strict-aliasing'], nworkers=4, of=8), dict(name='f32', real=4, harness=['h_fuzzy_w.c']), dict(name='f80', real=16, harness=['h_fuzzy_w.c']),
                          dict(name='cxx', harness=['h_cxxw.c', 'h_cxxw_shim.cc'], hflags=['-DVF_CXXW=13'], nworkers=4),
                          # the scratch-buffer clause alone, on scratch blocks that start off an a_real boundary: the unchanged library then stores
                          # a_real values at unaligned addresses, which UBSan's alignment check (not part of the property) would report
                          dict(name='unaligned-scratch', cflags=['-fno-sanitize=alignment'], hflags=['-DVF_UNALIGNED_SCRATCH'], nworkers=2)],
    parallel_configs=7,
    level='exploration',
    rule='three monitor groups. MF: for each of the 13 a_mf_* families, parameter tuples are drawn per degeneracy class (all '
         'equal-neighbour patterns a=b, b=c, c=d, ... of the piecewise-linear families, flanks a few ulps wide, c1=c2, slope-sign '
         'patterns, 2b=1/integer/fractional bell exponents) x 7 magnitudes (1e-150..1e150) x {centred, offset by 2^4..2^16 widths}; every '
         'tuple is evaluated on all of its break points, +-1, +-2, +-1000 ulps around each, midpoints and random points of every '
         'interval between them, far outside, +-1e300, +-DBL_MAX, 0, and judged for range, core==1, support==0, the documented formula '
         'in __float128, monotone neighbouring pairs per flank, one-sided continuity at break points, s+z / lins+linz == 1, a_mf == '
         'specific function. OP: grid of 13 special membership values squared + random pairs (uniform, tiny, 1-tiny, dyadic), every '
         'operator judged against its exact formula and class laws, header-inline body vs exported symbol vs a_pid_fuzzy_opr pointer. '
         'PID: every rule-base order 1..7 x every operator selector (7 + unknown) x 10 membership-table kinds (partitions of every '
         'family, mixed tables, early-terminated tables), scratch block = exact-size malloc of A_PID_FUZZY_BFUZZ(N) with N = measured '
         'maximum of simultaneously active sets over the planned inputs (or the order), gains after every run/pos/inc step judged '
         'against the weighted mean of the active consequents in __float128. distinct_nontrivial counts distinct cells (MF: family, '
         'degeneracy class, input region = which break point and which ulp offset / which interval / far / huge; OP: operator, a<b|a=b|a>b, '
         'magnitude bucket of a x bucket of b; PID: operator, order, table kinds, number of active e sets, number of active ec sets, '
         'outcome) - NOT the number of evaluations.',
    exhaustive={'quick': None, 'thorough': None},
    require=['pid-scratch-shrunk-guards-intact', 'pid-scratch-shrunk-in-place-and-set-again', 'pid_fuzzy-one-table-for-both-inputs', 'pid_fuzzy-scratch-block-set-before-the-rule-base', 'pid-scratch-every-start-offset-guards-intact', 'pid-scratch-every-start-offset-getter-and-layout', 'pid-scratch-every-start-offset-gains==aligned-twin', 'pid-scratch-used-up-to-its-last-real', 'pid_fuzzy-both-inputs-in-membership-tails', 'mf-range-extreme-parameters', 'bfuzz-macro-with-expression-argument', 'a_pid_fuzzy::set_kpid', 'a_pid_fuzzy::set_rule', 'a_pid_fuzzy::pos', 'w-fuzzy-gains-weighted-mean', 'w-mf-range', 'w-mf-pairs-complementary', 'mf-range', 'mf-core-one', 'mf-support-zero', 'mf-formula', 'mf-monotone', 'mf-continuity', 'mf-s+z=1', 'mf-lins+linz=1',
             'mf-dispatcher', 'op-commutative', 'op-formula', 'op-class-bound', 'op-monotone', 'op-boundary', 'op-inline==exported',
             'op-pid-selector', 'op-not', 'op-equ_', 'pid-bfuzz-layout', 'pid-opr-default', 'pid-partition-bound-2',
             'pid-gain-base-when-nothing-fires', 'pid-gain-finite', 'pid-gain-in-consequent-range', 'pid-gain-weighted-mean'],
    cov_files=['mf.c', 'fuzzy.c', 'pid_fuzzy.c'],
    cov_cases=400, cov_funcs=r'^a_(mf|fuzzy|pid_fuzzy)',
    workers={'quick': 8, 'thorough': 16},
    timeout={'quick': 900, 'thorough': 7200},
    assumptions=[
        'only executions produced by this run are judged (runtime monitoring, not proof)',
        'gcc 12 / x86-64 LP64 little-endian, A_SIZE_POINTER=8; library rebuilt from /repo working tree with -fsanitize=address,undefined',
        'full harness: a_real = double (A_SIZE_REAL 8), glibc libm exp/pow/sqrt (error < 1 ulp) behind a_real_exp/pow/sqrt; the float and long double builds '
        'run the compact companion h_fuzzy_w.c only (membership range clauses, fuzzy gain scheduling with an exact-size scratch block against the binary128 weighted mean; '
        'even orders only in long double, where odd orders misalign the scratch layout - observed, outside the property text)',
        'range clause over the WHOLE finite parameter domain (h_mf_extreme.h: +-MAX, MAX/2, MAX/3, sqrt MAX, 1, eps, MIN, subnormals, 0, adjacent values; x from the pool, the parameters, their neighbours and midpoints) for every family in every width; the formula, continuity, monotonicity and complementarity clauses need resolvable widths and use the restricted domain that follows',
        'parameter domain as in the quantifier: a<=b<=c<=d for trap/tri/lins/linz (all equalities included), non-zero widths for '
        'gauss/gauss2/gbell/sig/psig/s/z/pi, equal positive slopes and c1<=c2 for dsig; |parameters| <= 1e150 * 2^16; flank widths of '
        's/z/pi at least 2^-17 of the magnitude of their break points (below 2^-26 the rounded midpoint (a+b)/2 differs visibly from the real one)',
        'not judged against the formula (range only): gbell where |x-c|/a overflows double (library gives 0, exact value ~1e-295); '
        'lins/linz with a==b at x==a (documentation gives both 0 and 1 there; NaN is still a range violation); a_fuzzy_equ_ where a*b is subnormal',
        'fuzzy PID: memberships and operator values used as weights of the reference mean are the library\'s own doubles (each judged separately '
        'against quad in the MF/OP groups); steps where a membership lies within 4 ulps of the activation threshold eps are executed but not judged',
    ],
    level_text='Each family/operator is a pure function of <= 5 reals and the controller step is a pure function of the tables and two '
               'inputs, so the refuting events are all observable at the call boundary: the check executes the real functions on structured '
               'boundary inputs (every break point and its ulp neighbourhood, every degeneracy pattern of the parameters, every operator '
               'selector and rule-base order) plus random ones and compares with an independent __float128 evaluation of the documented '
               'formula and with the algebraic laws; the scratch buffer contract is watched by ASan on an exact-size block whose size is the '
               'tightest admissible one. Exploration (not exhaustive): the input spaces are real-valued.',
    level_note='trusted: libquadmath (expq, powq, sqrtq) and gcc __float128 arithmetic; conditioning-aware meaning of "4 ulps" for the '
               'exp/pow based families (see harness header); sampled parameter and input spaces; overruns that stay inside the scratch '
               'allocation are only visible through a wrong gain (value-level oracle), not through ASan',
    technique='structured boundary + random input sweep with quad-precision formula oracle, algebraic-law monitors, exact-size heap scratch '
              'buffer under ASan+UBSan'
              '; float / long double companion harness; C++ member vs C function twin execution on one object',
)
