"""C16 - transfer function and RC filters realise their difference equations (harness/h_filter.c)."""

SPEC = dict(
    harness=['h_filter.c'],
    # the default (double) build runs the full harness; the other two real widths run a compact type-generic companion
    configs=lambda tier: [dict(name='f64'), dict(name='f64-clang', libcc='clang', nworkers=4, of=8), dict(name='f64-o2', libflavour='san-o2', libdrop=['-fno-strict-aliasing'], nworkers=4, of=8), dict(name='f32', real=4, harness=['h_filter_w.c']), dict(name='f80', real=16, harness=['h_filter_w.c']),
                          dict(name='cxx', harness=['h_cxxw.c', 'h_cxxw_shim.cc'], hflags=['-DVF_CXXW=16'], nworkers=4),
                          # histories of 2^32 bytes and more (4 GiB resident per worker while a case runs; skipped and counted when memory is short)
                          dict(name='giant', harness=['h_tf_giant.c'], flavour='fast', nworkers=2)],
    parallel_configs=6,
    level='exploration',
    rule='a_tf: every (num_n, den_n) pair in 0..8 x 0..8 is run in every repetition with every input class (impulse, step, alternating, '
         'random) in two regimes. Exact regime: integer inputs, dyadic coefficients (cyclotomic-product / small-integer / fractional '
         'denominators), history cut where sum|terms|*2^(fractional bits) would reach 2^48, so all arithmetic is exact; every returned '
         'output is compared BITWISE with a reference recurrence that keeps the full x[]/y[] histories and uses explicit index arithmetic; '
         'superposition (a*u+b*v, a,b in -4..4) and delay by 1..12 samples are checked as exact identities; a_tf_zero / a_tf_set_num / '
         'a_tf_set_den / a_tf_init in mid-history are modelled by epochs in the reference. Exact cancellation class (48 histories per repetition, num_n 1..4, '
         'den_n 1..3, integer coefficients -3..3, scales 2^-960..2^960): integer inputs solved such that an output is 1..8 grid units while the positive '
         'and the negative terms each sum to (2^52, 2^53] grid units - every subset sum is an integer <= 2^53 (checked per step in __int128), so '
         'every summation order is exact; outputs (and 1..4 following steps, and the superposition a*u+b*v with v small or v = -u+small) must equal '
         'the integer recurrence; steps with 0 < |y| < sum|terms|*eps/2 are counted (tf-exact-cancellation-below-half-ulp-of-term-sum). Real regime: random real coefficients '
         '(contractive, stable-pole and arbitrary denominators), one-step oracle in binary128 on the library\'s own history with the '
         'a-priori bound n*eps*sum|terms|; superposition/delay with the bound Delta/(1-sum|den|) on contractive filters. In both regimes after '
         'every call: delay lines hold the most recent samples first, canaries/exact-size blocks intact, context and coefficient vectors '
         'unchanged, zero state after init/zero, bitwise identical re-run after a_tf_zero. a_lpf/a_hpf: one-step oracle, exact dyadic '
         'regime, range/settling/decay clauses in logical steps, zero/init behaviour; a_lpf_gen/a_hpf_gen on log-uniform (fc, ts). '
         'distinct_nontrivial counts distinct (num_n, den_n, input class) triples of a_tf in which at least one non-empty history was judged '
         'against the reference (at most 9*9*4 = 324), plus the (num_n, den_n) pairs of the exact cancellation class, the clause classes of the float / long double companions and the (struct, order) classes of the C++ member-equivalence configuration - NOT the number of filter steps (evaluations).',
    exhaustive={'quick': None, 'thorough': None},
    require=['tf-history-continued-after-output-overflow', 'tf-empty-side-with-null-storage', 'tf-lines-in-one-block-input-then-output', 'tf-lines-in-one-block-output-then-input', 'tf-coefficients-attached-before-they-are-written', 'a_tf::operator()', 'a_tf::init', 'a_tf::set_num', 'a_tf::set_den', 'a_tf::zero', 'a_lpf::gen', 'a_lpf::operator()', 'a_lpf::zero', 'a_hpf::gen', 'a_hpf::operator()', 'a_hpf::zero',
             'w-tf-init-zero-state', 'w-tf-one-step-oracle', 'w-tf-delay-lines', 'w-tf-set-zeroes-new-line', 'w-tf-zero-restores-initial-state', 'w-gen-inside-unit-interval', 'w-rc-one-step-oracle', 'tf-exact-bitwise', 'tf-exact-superposition', 'tf-exact-time-invariance', 'tf-exact-reconfig-bitwise',
             'tf-exact-cancellation-bitwise', 'tf-exact-cancellation-below-half-ulp-of-term-sum', 'tf-exact-cancellation-superposition',
             'w-tf-exact-cancellation-bitwise', 'w-tf-exact-cancellation-below-half-ulp-of-term-sum', 'w-tf-exact-cancellation-superposition',
             'tf-real-onestep', 'tf-real-superposition', 'tf-real-time-invariance', 'tf-real-reconfig-onestep',
             'tf-init-zero-state', 'tf-zero-state-initial', 'tf-zero-rerun-identical', 'tf-zero-mid-history',
             'tf-set-num-mid-history', 'tf-set-den-mid-history', 'tf-reinit-mid-history',
             'tf-delay-line-state', 'tf-canaries', 'tf-coefficients-untouched', 'tf-repo-test-tracks-setpoint',
             'lpf-difference-equation', 'lpf-exact', 'lpf-range', 'lpf-settles-to-constant', 'lpf-init-zero', 'lpf-zero-rerun',
             'hpf-difference-equation', 'hpf-exact', 'hpf-decays-on-constant', 'hpf-init-zero', 'hpf-zero-rerun',
             'gen-range', 'gen-strictly-inside', 'gen-header-formula'],
    cov_files=['tf.c', 'math.c'],
    cov_cases=200, cov_funcs=r'^a_tf_|^a_real_push_fore$',
    assumptions=[
        'only executions produced by this run are judged (runtime monitoring, not proof)',
        'gcc 12 / x86-64 LP64 little-endian, A_SIZE_POINTER=8; library rebuilt from /repo working tree with -fsanitize=address,undefined',
        'full harness: a_real = double (A_SIZE_REAL=8), SSE2 arithmetic, -ffp-contract=off (no FMA contraction): the exact regime relies on IEEE-754 '
        'binary64 operations being exact whenever the result is representable',
        'index convention read from src/tf.c and confirmed on the data of test/tf.h (output settles at the plotted set-point 1.0): '
        'num[0] multiplies the current input, den[0] the previous output; tf.h itself does not spell the equation out',
        'a_tf_set_num / a_tf_set_den are modelled as the implementation and a_tf_init (their composition) require: the delay line handed '
        'in is zeroed, the other line and its coefficients are kept; the header documents no more than "set numerator/denominator"',
        'order 0 is exercised with valid zero-size blocks (never NULL: a_zero/a_move are declared nonnull)',
        'low-pass range clause: DESIGN.md planned a 2-ulp slack; that is unsound (fl(1-alpha)+alpha != 1 and per-step rounding is only '
        'contracted by 1-alpha; up to 256 ulp observed on the unchanged tree; worst excess/slack 0.22 over seeds 1..5). The clause uses 2 ulp + 2*eps*M*min(steps, 1/alpha), '
        'the geometric sum of the per-step rounding bound',
        'high-pass decay is judged after ceil(40/(1-alpha)) steps (its pole is alpha), low-pass settling after ceil(40/alpha) steps',
        'a_lpf_gen/a_hpf_gen: strict interior and the header formula are asserted for 1e-12 <= fc*ts <= 1e12 with fc, ts each within '
        '[1e-100,1e100]; the range [0,1] for all positive finite doubles including subnormal and near-overflow arguments',
    ],
    level_text='The difference equation is a statement about every step of every history; it is decided here by executing the real '
               'a_tf/a_lpf/a_hpf code on many histories and judging every returned sample. Where arithmetic can be made exact (integer inputs, '
               'dyadic coefficients, bounded magnitudes) the oracle is bitwise equality with an independently written recurrence, which also '
               'turns linearity and time invariance into exact identities; elsewhere a one-step binary128 oracle with an a-priori rounding '
               'bound is used. Memory discipline of the caller-provided delay lines is watched by ASan red zones on exact-size blocks and by '
               'canary cells. All 81 order pairs are enumerated; histories, coefficients and inputs are sampled.',
    level_note='trusted: libquadmath binary128 arithmetic and the harness reference recurrence; histories are at most 500 samples (exact regime: '
               'as long as exactness is guaranteed, 1..500), orders at most 8; coefficients/inputs are sampled, not enumerated; the float (A_SIZE_REAL=4) and long double (16) builds are run through the compact '
               'companion h_filter_w.c only (init/zero/set on garbage-filled exact-size delay lines, one-step binary128 oracle, exact cancellation class with p = 24 / 64, RC filters; counters w-*); '
               'the C++ operator() wrappers are not executed',
    technique='exact-arithmetic reference recurrence (bitwise) + binary128 one-step oracle + LTI identities + canaries under ASan+UBSan'
              '; float / long double companion harness; C++ member vs C function twin execution on one object',
    workers={'quick': 12, 'thorough': 18},
)
