#!/bin/sh
# guard-off baseline: the repository's own build + test suite, exactly as pinned
# (Ninja, RelWithDebInfo, LIBA_CXX=ON, BUILD_TESTING=ON), without -DLIBA_VERIF.
set -e
B=${VF_BASELINE_DIR:-/verif/build/baseline}
mkdir -p "$B"
cmake -S /repo -B "$B" -G Ninja -DCMAKE_BUILD_TYPE=RelWithDebInfo -DBUILD_TESTING=ON -DLIBA_CXX=ON \
      -DCMAKE_C_FLAGS=-Wno-error -DCMAKE_CXX_FLAGS=-Wno-error >"$B/configure.log" 2>&1 || { cat "$B/configure.log"; exit 2; }
cmake --build "$B" -j16 >"$B/build.log" 2>&1 || { tail -50 "$B/build.log"; exit 2; }
ctest --test-dir "$B" -j8 --timeout 900 --output-junit "$B/junit.xml"
